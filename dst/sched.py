"""The baton scheduler: real threads run one at a time; the simulator decides,
from the run's PRNG, at which line (or opcode) of library code the running
thread is pre-empted and who runs next.

* exactly one thread holds the baton; everyone else is parked on a private
  semaphore, so ``sim.current`` is well defined even though generator frames
  migrate between threads;
* ``sys.monitoring`` (dst.monitor) delivers line / instruction events only for
  code objects of the library, so harness bookkeeping is atomic and C code (regex matching, dict operations) is atomic
  as it is under the GIL;
* every decision is recorded as (step, thread); a recorded decision list can be
  fed back instead of PRNG draws (replay, schedule minimisation).
"""

from __future__ import annotations

import random
import sys
import threading
from typing import Any
from typing import Callable
from typing import Dict
from typing import List
from typing import Optional
from typing import Tuple

from . import monitor
from .stepclock import StepBudgetExceeded

ACTIVE: Optional["Sim"] = None
TRACED_CODE: set = set()  # extra code objects (harness function extensions) that are pre-emptible


class Deadlock(BaseException):
    pass


class SimThread:
    def __init__(self, name: str, fn: Callable[[], None]) -> None:
        self.name = name
        self.fn = fn
        self.sem = threading.Semaphore(0)
        self.finished = False
        self.exc: Optional[BaseException] = None
        self.blocked_on: Any = None
        self.thread: Optional[threading.Thread] = None
        self.priority = 0.0
        self.in_library = 0  # > 0 while the thread is inside a library call made by the harness
        self.native_id = 0
        self.local = 0  # pre-emption points this thread has passed itself
        self.last_code: Any = None  # code object of the thread's previous pre-emption point


class Sim:
    def __init__(
        self,
        rng: random.Random,
        strategy: Dict[str, Any],
        *,
        opcode: bool = False,
        step_cap: int = 2_000_000,
        feed: Optional[List[Tuple[int, str]]] = None,
        events: bool = True,
    ) -> None:
        self.rng = rng
        self.strategy = strategy
        self.opcode = opcode
        self.events = events
        self.step_cap = step_cap
        # recorded decisions [step, thread, kind]; kind: "0" first, "s" switch at a
        # pre-emption point, "f" hand-off when a thread finished, "b" baton holder blocked
        # A switch is recorded as [step, next thread, "s", pre-empted thread, that thread's own step
        # count]: fed back, it is looked up by (thread, own step count), so it keeps its meaning
        # when other switches are deleted from the schedule (minimisation).  Older replay files
        # have three-field entries, which are matched by the global step count.
        self.feed = [list(d) for d in feed] if feed is not None else None
        self._fi = 0
        self._local_feed: Optional[Dict[Tuple[str, int], str]] = None
        self._f_feed: List[str] = []
        if self.feed is not None and any(len(d) >= 5 for d in self.feed if d[2] == "s"):
            self._local_feed = {(d[3], d[4]): d[1] for d in self.feed if d[2] == "s" and len(d) >= 5}
            self._f_feed = [d[1] for d in self.feed if d[2] == "f"]
        self.threads: Dict[str, SimThread] = {}
        self.order: List[str] = []
        self.current: Optional[SimThread] = None
        self.steps = 0
        self.decisions: List[Tuple[int, str, str]] = []
        self.switch_sites: List[str] = []
        self.aborted: Optional[BaseException] = None
        self.done = threading.Event()
        self.site_counts: Dict[str, int] = {}
        self._stall_until = 0
        self._pct_points: List[int] = []
        self.in_code: Dict[str, str] = {}  # thread -> co_name of innermost library frame at last park
        self._have_blocked = False
        self._edge = False
        self.real_blocks = 0

    # ------------------------------------------------------------------
    def spawn(self, name: str, fn: Callable[[], None]) -> None:
        t = SimThread(name, fn)
        self.threads[name] = t
        self.order.append(name)

    def runnable(self, exclude: Optional[SimThread] = None) -> List[SimThread]:
        return [self.threads[n] for n in self.order if not self.threads[n].finished and self.threads[n].blocked_on is None and self.threads[n] is not exclude]

    # ------------------------------------------------------------------
    # pre-emption points: sys.monitoring events inside library code (dst.monitor).
    # Only simulated threads execute library code while a simulation runs.
    def _on_line(self, code: Any, line: int) -> Any:
        if not self.opcode:
            self._point(code)

    def _on_instruction(self, code: Any, offset: int) -> Any:
        self._point(code)

    def _point(self, code: Any) -> None:
        cur = self.current
        assert cur is not None
        if self.aborted is not None:
            raise self.aborted
        if self._have_blocked:
            # a thread that was found blocked inside a real lock (and lost the
            # baton) has woken up: it parks here until it is scheduled again
            me = self.threads.get(threading.current_thread().name[4:])
            if me is not None and me is not cur:
                me.blocked_on = None
                self._have_blocked = any(t.blocked_on is not None for t in self.threads.values())
                me.sem.acquire()
                if self.aborted is not None:
                    raise self.aborted
                cur = me
            elif me is not None and me.blocked_on is not None:
                me.blocked_on = None
                self._have_blocked = any(t.blocked_on is not None for t in self.threads.values())
        self.steps += 1
        cur.local += 1
        if self.steps > self.step_cap:
            self.aborted = StepBudgetExceeded(self.steps)
            raise self.aborted
        # an "edge": the thread has just entered or left a function (check-then-act sequences
        # that span a call have their windows there)
        self._edge = code is not cur.last_code
        cur.last_code = code
        nxt = self._decide(cur)
        if nxt is not None and nxt is not cur:
            site = f"{code.co_filename.rsplit('/', 1)[-1]}:{code.co_name}"
            self._switch(cur, nxt, site)

    def _switch(self, cur: SimThread, nxt: SimThread, site: str) -> None:
        self.decisions.append((self.steps, nxt.name, "s", cur.name, cur.local))
        self.switch_sites.append(f"{cur.name}@{site}")
        self.site_counts[site] = self.site_counts.get(site, 0) + 1
        self.in_code[cur.name] = site
        # probe: pre-empted inside the parser while another thread is parked inside the parser too
        if site.startswith("parse.py") and any(v.startswith("parse.py") for k, v in self.in_code.items() if k != cur.name and not self.threads[k].finished):
            self.site_counts["probe:two_threads_inside_parser"] = self.site_counts.get("probe:two_threads_inside_parser", 0) + 1
        self.current = nxt
        nxt.sem.release()
        cur.sem.acquire()
        self.in_code.pop(cur.name, None)
        if self.aborted is not None:
            raise self.aborted

    # -- strategies -------------------------------------------------------
    def _decide(self, cur: SimThread) -> Optional[SimThread]:
        if self._local_feed is not None:
            name = self._local_feed.get((cur.name, cur.local))
            if name is None:
                return None
            t = self.threads.get(name)
            if t is None or t.finished or t.blocked_on is not None:
                return None
            return t
        if self.feed is not None:
            f = self.feed
            while self._fi < len(f) and (f[self._fi][2] != "s" or f[self._fi][0] < self.steps):
                if f[self._fi][2] != "s" and f[self._fi][0] >= self.steps:
                    return None  # a hand-off entry is next: nothing to do at pre-emption points
                self._fi += 1
            if self._fi < len(f) and f[self._fi][0] == self.steps:
                t = self.threads.get(f[self._fi][1])
                self._fi += 1
                if t is None or t.finished or t.blocked_on is not None:
                    return None
                return t
            return None
        st = self.strategy
        kind = st["kind"]
        if kind == "walk":
            if self.rng.random() < st["p"]:
                others = self.runnable(exclude=cur)
                if others:
                    return others[self.rng.randrange(len(others))]
            return None
        if kind == "pct":
            if self._pct_points and self.steps >= self._pct_points[0]:
                self._pct_points.pop(0)
                cur.priority = min(t.priority for t in self.threads.values()) - 1.0
            best = max(self.runnable(), key=lambda t: t.priority, default=None)
            return best if best is not cur else None
        if kind == "edges":
            # switch mostly where control passes from one function to another
            if self.rng.random() < (st["p_edge"] if self._edge else st["p"]):
                others = self.runnable(exclude=cur)
                if others:
                    return others[self.rng.randrange(len(others))]
            return None
        if kind == "stall":
            # one thread is held; the others are switched among with a small p
            held = st["held"]
            if cur.name == held and self.steps < self._stall_until:
                others = self.runnable(exclude=cur)
                if others:
                    return others[self.rng.randrange(len(others))]
                return None
            if self.rng.random() < st.get("p", 0.02):
                others = [t for t in self.runnable(exclude=cur) if not (t.name == held and self.steps < self._stall_until)]
                if others:
                    return others[self.rng.randrange(len(others))]
            return None
        if kind == "rr":
            if self.steps % st["quantum"] == 0:
                others = self.runnable(exclude=cur)
                if others:
                    idx = (self.order.index(cur.name) + 1) % len(self.order)
                    for k in range(len(self.order)):
                        t = self.threads[self.order[(idx + k) % len(self.order)]]
                        if t in others:
                            return t
            return None
        return None

    # ------------------------------------------------------------------
    def _body(self, t: SimThread) -> None:
        t.native_id = threading.get_native_id()
        t.sem.acquire()
        try:
            if self.aborted is None:
                t.fn()
        except BaseException as exc:  # noqa: BLE001
            t.exc = exc
        finally:
            t.finished = True
            self._on_finish(t)

    def _on_finish(self, t: SimThread) -> None:
        rest = self.runnable()
        if not rest:
            # nobody runnable: either all finished or the rest is blocked
            blocked = [x for x in self.threads.values() if not x.finished]
            if blocked:
                # they are physically blocked in a real lock; whoever wakes up
                # becomes current (the stall detector in run() sorts out the rest)
                self.current = blocked[0]
                return
            self.done.set()
            return
        if self._local_feed is not None:
            nxt = rest[0]
            if self._f_feed:
                want = self.threads.get(self._f_feed.pop(0))
                if want in rest:
                    nxt = want
        elif self.feed is not None:
            nxt = rest[0]
            f = self.feed
            while self._fi < len(f) and f[self._fi][2] == "s" and f[self._fi][0] <= self.steps:
                self._fi += 1
            if self._fi < len(f) and f[self._fi][2] == "f":
                want = self.threads.get(f[self._fi][1])
                self._fi += 1
                if want in rest:
                    nxt = want
        elif self.strategy["kind"] == "pct":
            nxt = max(rest, key=lambda x: x.priority)
        else:
            nxt = rest[self.rng.randrange(len(rest))]
        self.decisions.append((self.steps, nxt.name, "f"))
        self.current = nxt
        nxt.sem.release()

    def run(self) -> None:
        global ACTIVE
        st = self.strategy
        if st["kind"] == "pct":
            for name in self.order:
                self.threads[name].priority = self.rng.random()
            self._pct_points = sorted(self.rng.randrange(st.get("horizon", 4000)) for _ in range(st["d"]))
        if st["kind"] == "stall":
            self._stall_until = st.get("until", 3000)
        for name in self.order:
            t = self.threads[name]
            t.thread = threading.Thread(target=self._body, args=(t,), name=f"sim-{name}", daemon=True)
            t.thread.start()
        ACTIVE = self
        if self.events:
            monitor.switch_on(self._on_line, self._on_instruction if self.opcode else None)
        try:
            if self.feed is not None:
                first = self.threads[self.order[0]]
                if self.feed and self.feed[0][2] == "0":
                    first = self.threads.get(self.feed[0][1], first)
                    self._fi = 1
            elif st["kind"] != "pct":
                first = self.threads[self.order[self.rng.randrange(len(self.order))]]
            else:
                first = max(self.threads.values(), key=lambda x: x.priority)
            self.decisions.append((0, first.name, "0"))
            self.current = first
            first.sem.release()
            last = -1
            asleep = 0
            while not self.done.wait(0.25):
                # No step for two quarter-seconds while the baton holder is inside
                # a library call AND asleep in the kernel (not merely starved of
                # CPU, not doing harness I/O): it is blocked in a real lock held
                # by a parked thread (a lock somebody added to the library).  Mark
                # it blocked and pass the baton on; when it wakes up it parks
                # itself at its next line event.
                cur = self.current
                if self.steps != last or cur is None or cur.finished or not cur.in_library or _thread_state(cur.native_id) != "S":
                    last = self.steps
                    asleep = 0
                    continue
                asleep += 1
                if asleep < 2:
                    continue
                asleep = 0
                cur.blocked_on = "real-lock"
                self._have_blocked = True
                self.real_blocks += 1
                rest = self.runnable()
                if not rest:
                    self.aborted = Deadlock(f"{cur.name} is blocked and nobody else can run")
                    break
                nxt = rest[0]
                self.decisions.append((self.steps, nxt.name, "b"))
                self.current = nxt
                nxt.sem.release()
            if self.aborted is None or not isinstance(self.aborted, Deadlock):
                for t in self.threads.values():
                    assert t.thread is not None
                    t.thread.join()
        finally:
            if self.events:
                monitor.switch_off()
            ACTIVE = None


def run_guarded(fn: Callable[[], None]) -> Optional[BaseException]:
    """Run fn() on ONE simulated thread without pre-emption events: nothing is scheduled, but
    if fn blocks for ever inside a library call (a lock somebody added to the library, held by a
    suspended iterator or by a thread that is gone) the stall detector ends the run as a Deadlock
    instead of hanging the process.  Returns the Deadlock, an exception fn raised, or None."""
    sim = Sim(random.Random(0), {"kind": "walk", "p": 0.0}, events=False)
    sim.spawn("G", fn)
    sim.run()
    if sim.aborted is not None:
        return sim.aborted
    return sim.threads["G"].exc


def _thread_state(native_id: int) -> str:
    """Kernel scheduling state of one of our threads: 'R' running/runnable, 'S' sleeping (futex, pipe...)."""
    try:
        with open(f"/proc/self/task/{native_id}/stat") as fd:
            return fd.read().rsplit(")", 1)[1].split()[0]
    except (OSError, IndexError):
        return "?"


class in_library:
    """Context manager the harness puts around every call into the library."""

    def __enter__(self) -> None:
        sim = ACTIVE
        self.t = sim.current if sim is not None and threading.current_thread().name.startswith("sim-") else None
        if self.t is not None:
            self.t.in_library += 1

    def __exit__(self, *a: Any) -> None:
        if self.t is not None:
            self.t.in_library -= 1


def draw_strategy(rng: random.Random, names: List[str]) -> Dict[str, Any]:
    r = rng.random()
    if r < 0.38:
        return {"kind": "walk", "p": rng.choice((0.5, 0.125, 0.125, 0.02, 0.02, 0.002))}
    if r < 0.5:
        return {"kind": "edges", "p_edge": rng.choice((0.5, 0.2, 0.05)), "p": rng.choice((0.0, 0.005, 0.02))}
    if r < 0.75:
        return {"kind": "pct", "d": rng.choice((1, 2, 3)), "horizon": rng.choice((500, 2000, 6000))}
    if r < 0.9:
        return {"kind": "stall", "held": rng.choice(names), "until": rng.choice((500, 2000, 8000)), "p": rng.choice((0.02, 0.1))}
    return {"kind": "rr", "quantum": rng.choice((1, 3, 7, 50))}

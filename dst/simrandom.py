"""The randomness seam.

The library draws from the process-global ``random`` module functions
(``random.choice/sample/shuffle``) when ``env.nondeterministic`` is true.  The
simulator replaces every module-level function of ``random`` that is a bound
method of the hidden global instance with the same-named method of a
``SimRandom`` whose outcomes come from the run's PRNG, shaped by a *bias
profile*, and are recorded.  On replay a recorded trace is fed back; where it no
longer lines up (after shrinking) the seeded fallback decides.
"""

from __future__ import annotations

import random as _random
import sys
from typing import Any
from typing import Dict
from typing import List
from typing import Optional

COIN_MODES = ("uniform", "first", "second", "alternate", "mostly_first", "mostly_second")
SHUFFLE_MODES = ("uniform", "identity", "reverse", "rotate")
SAMPLE_MODES = ("uniform", "identity", "reverse", "alternate", "blocks")
# outcomes of random.random() / getrandbits(): every value the real functions can
# return is fair game ("every outcome of the random choices, not just the likely ones")
FLOAT_MODES = ("uniform", "uniform", "zero", "almost_one", "tiny", "extremes", "mostly_zero")
BITS_MODES = ("uniform", "uniform", "zeros", "ones", "alternate")


def draw_profile(rng: _random.Random) -> Dict[str, Any]:
    """Swarm-style bias profile: 1..3 phases, each a (coin, shuffle, sample) mode."""
    nphase = rng.choice((1, 1, 1, 2, 2, 3))
    phases = []
    for _ in range(nphase):
        if rng.random() < 0.25:
            ph = {"coin": "uniform", "shuffle": "uniform", "sample": "uniform"}
        else:
            ph = {
                "coin": rng.choice(COIN_MODES),
                "shuffle": rng.choice(SHUFFLE_MODES),
                "sample": rng.choice(SAMPLE_MODES),
                "float": rng.choice(FLOAT_MODES),
                "bits": rng.choice(BITS_MODES),
            }
        ph["len"] = rng.choice((1, 2, 3, 5, 8, 13, 30, 100))
        phases.append(ph)
    return {"phases": phases}


UNIFORM_PROFILE = {"phases": [{"coin": "uniform", "shuffle": "uniform", "sample": "uniform", "len": 1}]}


class ChoiceBudgetExceeded(BaseException):
    """The evaluation consumed more random decisions than the run's cap."""


FAIR_AFTER = 6  # identical consecutive biased outcomes before one uniform draw is interposed


_OrigRandom = _random.Random
_OrigSystemRandom = _random.SystemRandom


class SimRandom(_random.Random):
    """A ``random.Random`` whose high-level outcomes are biased and recorded.

    Fairness: a caller may legitimately redraw until it likes the outcome
    (rejection sampling -- CPython's own ``_randbelow`` does).  A biased mode
    that answered the same thing for ever would turn that into an endless loop
    which no real generator produces, so after FAIR_AFTER identical consecutive
    answers to the same question one uniform draw is interposed.
    """

    def __init__(
        self,
        seed: int,
        profile: Optional[Dict[str, Any]] = None,
        feed: Optional[List[list]] = None,
    ) -> None:
        super().__init__(seed)
        self._u = _OrigRandom(seed ^ 0x5DEECE66D)  # internal uniform source, never biased
        self._p = _OrigRandom(seed ^ 0x2545F4914F6CDD1D)  # seeds handed to private generators (see install)
        self.private_generators = 0
        self.profile = profile or UNIFORM_PROFILE
        self.feed = feed
        self.log: List[list] = []
        self.draws = 0
        self._phase = 0
        self._phase_left = self.profile["phases"][0]["len"]
        self._alt = 0
        self.fed = 0  # how many decisions were taken from the feed
        self.cap: Optional[int] = None
        self._last: Any = None
        self._same = 0

    def private_seed(self) -> int:
        self.private_generators += 1
        # (a guided search cannot enumerate what a private generator decides)
        self.unsupported = getattr(self, "unsupported", 0) + 1
        return self._p.getrandbits(64)

    def _fair(self, key: Any) -> bool:
        """True when the biased answer *key* may be given once more."""
        if self.cap is not None and len(self.log) > self.cap:
            raise ChoiceBudgetExceeded(len(self.log))
        if key == self._last:
            self._same += 1
            if self._same >= FAIR_AFTER:
                self._same = 0
                self._last = None
                return False
        else:
            self._last = key
            self._same = 0
        return True

    # -- phases ---------------------------------------------------------
    def _mode(self, kind: str) -> str:
        phases = self.profile["phases"]
        mode = phases[self._phase].get(kind, "uniform")
        self.draws += 1
        if len(phases) > 1:
            self._phase_left -= 1
            if self._phase_left <= 0:
                self._phase = (self._phase + 1) % len(phases)
                self._phase_left = phases[self._phase]["len"]
        return mode

    def _from_feed(self, kind: str, n: int) -> Any:
        if self.feed is None:
            return None
        pos = len(self.log)
        if pos < len(self.feed):
            ent = self.feed[pos]
            if ent[0] == kind and ent[1] == n:
                self.fed += 1
                return ent[2]
        return None

    # -- recorded high-level methods -------------------------------------
    def _pick_index(self, n: int) -> int:
        fed = self._from_feed("choice", n)
        mode = self._mode("coin")  # keep phase accounting identical with/without feed
        if fed is not None and 0 <= fed < n:
            idx = fed
        elif mode == "first":
            idx = 0 if self._fair(("c", n, 0)) else self._u.randrange(n)
        elif mode == "second":
            idx = n - 1 if self._fair(("c", n, n - 1)) else self._u.randrange(n)
        elif mode == "alternate":
            idx = self._alt % n
            self._alt += 1
        elif mode == "mostly_first":
            idx = 0 if self._u.random() < 0.85 else self._u.randrange(n)
        elif mode == "mostly_second":
            idx = n - 1 if self._u.random() < 0.85 else self._u.randrange(n)
        else:
            idx = self._u.randrange(n)
        self.log.append(["choice", n, idx])
        return idx

    def choice(self, seq):  # type: ignore[override]
        n = len(seq)
        if n == 0:
            raise IndexError("Cannot choose from an empty sequence")
        return seq[self._pick_index(n)]

    def randrange(self, start, stop=None, step=1):  # type: ignore[override]
        if stop is None:
            start, stop = 0, start
        width = len(range(start, stop, step))
        if width <= 0:
            raise ValueError(f"empty range in randrange({start}, {stop}, {step})")
        return start + step * self._pick_index(width)

    def randint(self, a, b):  # type: ignore[override]
        return self.randrange(a, b + 1)

    def _perm(self, kind: str, n: int, modekind: str) -> List[int]:
        fed = self._from_feed(kind, n)
        mode = self._mode(modekind)
        if fed is not None and sorted(fed) == list(range(n)):
            perm = list(fed)
        elif mode == "identity" or n < 2:
            perm = list(range(n))
        elif mode == "reverse":
            perm = list(range(n - 1, -1, -1))
        elif mode == "rotate":
            r = 1 + self._u.randrange(n - 1)
            perm = list(range(r, n)) + list(range(r))
        elif mode == "alternate":
            # strict alternation between the two halves of the population
            # (for the library's queue/grandchildren interleave: q,g,q,g,...)
            cut = self._u.randrange(n + 1)
            a, b = list(range(cut)), list(range(cut, n))
            perm = []
            while a or b:
                if a:
                    perm.append(a.pop(0))
                if b:
                    perm.append(b.pop(0))
        elif mode == "blocks":
            # random cut points, blocks emitted in reverse
            perm = list(range(n))
            cut = self._u.randrange(n + 1)
            perm = perm[cut:] + perm[:cut]
        else:
            perm = list(range(n))
            self._u.shuffle(perm)
        self.log.append([kind, n, perm])
        return perm

    def shuffle(self, x) -> None:  # type: ignore[override]
        n = len(x)
        perm = self._perm("shuffle", n, "shuffle")
        items = [x[i] for i in perm]
        for i, itm in enumerate(items):
            x[i] = itm

    def sample(self, population, k, *, counts=None):  # type: ignore[override]
        if counts is not None:
            return super().sample(population, k, counts=counts)
        population = list(population)
        n = len(population)
        if not 0 <= k <= n:
            raise ValueError("Sample larger than population or is negative")
        perm = self._perm("sample", n, "sample")
        return [population[i] for i in perm[:k]]

    # the low-level sources: biased and recorded too, so that an implementation
    # that draws with random.random() / getrandbits() is steered as well
    def random(self) -> float:  # type: ignore[override]
        fed = self._from_feed("random", 0)
        mode = self._mode("float")
        if isinstance(fed, float) and 0.0 <= fed < 1.0:
            v = fed
        elif mode == "zero":
            v = 0.0 if self._fair(("f", 0)) else self._u.random()
        elif mode == "almost_one":
            v = 1.0 - 2.0**-53 if self._fair(("f", 1)) else self._u.random()
        elif mode == "tiny":
            v = self._u.random() * 1e-300
        elif mode == "extremes":
            self._alt += 1
            v = 0.0 if self._alt % 2 else 1.0 - 2.0**-53
        elif mode == "mostly_zero":
            v = 0.0 if self._u.random() < 0.7 else self._u.random()
        else:
            v = self._u.random()
        self.log.append(["random", 0, v])
        return v

    def getrandbits(self, k: int) -> int:  # type: ignore[override]
        fed = self._from_feed("bits", k)
        mode = self._mode("bits")
        if isinstance(fed, int) and 0 <= fed < (1 << k):
            v = fed
        elif k == 0:
            v = 0
        elif mode == "zeros":
            v = 0 if self._fair(("b", k, 0)) else self._u.getrandbits(k)
        elif mode == "ones":
            v = (1 << k) - 1 if self._fair(("b", k, 1)) else self._u.getrandbits(k)
        elif mode == "alternate":
            self._alt += 1
            v = 0 if self._alt % 2 else (1 << k) - 1
        else:
            v = self._u.getrandbits(k)
        self.log.append(["bits", k, v])
        return v

    def _randbelow(self, n: int) -> int:  # type: ignore[override]
        # used by base-class methods that are not overridden (choices, ...): a
        # recorded, biased index; never a rejection loop over biased bits
        return self._pick_index(n)


class SteerRandom(SimRandom):
    """A chooser for guided search: index decisions (choice / randrange / randint) follow a
    prescribed list and default to 0 beyond it; every decision is recorded with the number of
    result nodes the consumer had received when it was taken (``self.produced`` is kept up to date
    by the consumer).  Decisions of another kind (shuffles, floats, bits) are answered uniformly
    and flagged: the search cannot enumerate those."""

    def __init__(self, seed: int, plan: List[int]) -> None:
        super().__init__(seed)
        self.plan = plan
        self.decisions: List[List[int]] = []  # [n, idx, produced]
        self.produced = 0
        self.unsupported = 0
        self.invalid_plan = False

    def _pick_index(self, n: int) -> int:
        k = len(self.decisions)
        idx = self.plan[k] if k < len(self.plan) else 0
        if idx >= n:
            self.invalid_plan = True
            idx = n - 1
        self.decisions.append([n, idx, self.produced])
        self.log.append(["choice", n, idx])
        if self.cap is not None and len(self.log) > self.cap:
            raise ChoiceBudgetExceeded(len(self.log))
        return idx

    def _perm(self, kind: str, n: int, modekind: str) -> List[int]:
        if n > 1:
            self.unsupported += 1
        return super()._perm(kind, n, modekind)

    def random(self) -> float:  # type: ignore[override]
        self.unsupported += 1
        return self._u.random()

    def getrandbits(self, k: int) -> int:  # type: ignore[override]
        self.unsupported += 1
        return self._u.getrandbits(k)


_PATCHED: Dict[str, Any] = {}
_CAPTURED: List[Any] = []
_CURRENT: Optional["SimRandom"] = None
class _PrivateRandom(_OrigRandom):
    """What ``random.Random()`` / ``random.SystemRandom()`` give while a simulated generator is
    installed: a generator of its own, seeded from the simulated one when no seed is given, so
    code that keeps a private generator stays a function of the run's seed (its draws are
    neither biased nor recorded)."""

    def seed(self, a: Any = None, version: int = 2) -> None:
        if a is None and _CURRENT is not None:
            a = _CURRENT.private_seed()
        super().seed(a, version)


def install(sim: SimRandom) -> None:
    """Route the module-level functions of ``random`` to *sim*."""
    inst = _random._inst  # type: ignore[attr-defined]
    if not _PATCHED:
        for name in dir(_random):
            attr = getattr(_random, name)
            if getattr(attr, "__self__", None) is inst and hasattr(sim, name):
                _PATCHED[name] = attr
    global _CURRENT
    _CURRENT = sim
    for name in _PATCHED:
        setattr(_random, name, getattr(sim, name))
    _random.Random = _PrivateRandom  # type: ignore[misc]
    _random.SystemRandom = _PrivateRandom  # type: ignore[misc,assignment]
    # library modules that captured the functions themselves (``from random import shuffle``)
    # are routed to *sim* as well: the seam is "the stdlib generator", however it is spelled
    del _CAPTURED[:]
    originals = {id(v): k for k, v in _PATCHED.items()}
    for modname, mod in list(sys.modules.items()):
        if mod is None or not (modname == "jsonpath_rfc9535" or modname.startswith("jsonpath_rfc9535.")):
            continue
        for gname, val in list(vars(mod).items()):
            k = originals.get(id(val))
            if k is not None and val is _PATCHED[k]:
                _CAPTURED.append((mod, gname, val))
                setattr(mod, gname, getattr(sim, k))
            elif val is _OrigRandom or val is _OrigSystemRandom:
                _CAPTURED.append((mod, gname, val))
                setattr(mod, gname, _PrivateRandom)
            elif isinstance(val, _OrigRandom) and not isinstance(val, (SimRandom, _PrivateRandom)):
                # a generator the library made for itself at import time (module level): for the
                # duration of the run it is one seeded from the simulated generator
                _CAPTURED.append((mod, gname, val))
                setattr(mod, gname, _PrivateRandom())
            elif type(val).__module__.startswith("jsonpath_rfc9535") and hasattr(val, "__dict__") and not isinstance(val, type):
                # ... or keeps on a module-level object (the default environment, say)
                for aname, aval in list(vars(val).items()):
                    if isinstance(aval, _OrigRandom) and not isinstance(aval, (SimRandom, _PrivateRandom)):
                        _CAPTURED.append((val, aname, aval))
                        setattr(val, aname, _PrivateRandom())
    # anything that captured a bound method of the hidden instance at import
    # time stays deterministic (loses bias control, not replay)
    inst.seed(sim.getstate()[1][0])


def uninstall() -> None:
    global _CURRENT
    _CURRENT = None
    _random.Random = _OrigRandom  # type: ignore[misc]
    _random.SystemRandom = _OrigSystemRandom  # type: ignore[misc]
    for name, attr in _PATCHED.items():
        setattr(_random, name, attr)
    for mod, gname, val in _CAPTURED:
        setattr(mod, gname, val)
    del _CAPTURED[:]

"""Line / instruction events inside library code through ``sys.monitoring``.

``sys.settrace`` with ``f_trace_opcodes`` instruments code objects lazily and
persistently, so the first run of a process sees fewer events than later ones --
not repeatable.  Here every code object of the library (every function, method,
property, nested function, lambda, comprehension, generator expression reachable
from the imported modules) is registered up front, and events are switched on for
all of them at once for the duration of a simulated run and off again afterwards,
so the event sequence of a run depends on the run alone.  It is also several
times faster than a Python-level trace function.
"""

from __future__ import annotations

import os
import sys
import types
from typing import Any
from typing import Callable
from typing import List
from typing import Optional

import jsonpath_rfc9535

LIB_DIR = os.path.dirname(os.path.abspath(jsonpath_rfc9535.__file__)) + os.sep
TOOL = 4
_mon = sys.monitoring
LINE = _mon.events.LINE
INSTRUCTION = _mon.events.INSTRUCTION

_CODES: Optional[List[types.CodeType]] = None


def library_codes() -> List[types.CodeType]:
    global _CODES
    if _CODES is not None:
        return _CODES
    seen = set()
    out: List[types.CodeType] = []

    def walk(code: types.CodeType) -> None:
        if code in seen or not code.co_filename.startswith(LIB_DIR):
            return
        seen.add(code)
        out.append(code)
        for c in code.co_consts:
            if isinstance(c, types.CodeType):
                walk(c)

    def visit(obj: Any) -> None:
        fn = obj.__func__ if isinstance(obj, (staticmethod, classmethod)) else obj
        if isinstance(fn, property):
            for g in (fn.fget, fn.fset, fn.fdel):
                if g is not None and hasattr(g, "__code__"):
                    walk(g.__code__)
        elif isinstance(fn, types.FunctionType):
            walk(fn.__code__)
        elif hasattr(fn, "__wrapped__") and isinstance(getattr(fn, "__wrapped__"), types.FunctionType):
            walk(fn.__wrapped__.__code__)

    for _name, mod in sorted(sys.modules.items()):
        f = getattr(mod, "__file__", None)
        if not f or not os.path.abspath(f).startswith(LIB_DIR):
            continue
        for obj in list(vars(mod).values()):
            if isinstance(obj, type):
                if getattr(obj, "__module__", "").startswith("jsonpath_rfc9535"):
                    for v in list(vars(obj).values()):
                        visit(v)
            else:
                visit(obj)
    _CODES = out
    return out


def claim() -> None:
    if _mon.get_tool(TOOL) is None:
        _mon.use_tool_id(TOOL, "verif-dst")


_ENABLED = 0


def switch_on(on_line: Optional[Callable[..., Any]], on_instruction: Optional[Callable[..., Any]]) -> None:
    """Register callbacks and make sure the events are enabled on every library code object.

    The local events stay enabled for the life of the process once switched on (an
    enabled event without a callback costs next to nothing); what a run sees is
    therefore the same whether it is the first or the thousandth of its process.
    """
    global _ENABLED
    claim()
    events = 0
    if on_line is not None:
        events |= LINE
    if on_instruction is not None:
        events |= INSTRUCTION
    _mon.register_callback(TOOL, LINE, on_line)
    _mon.register_callback(TOOL, INSTRUCTION, on_instruction)
    if events | _ENABLED != _ENABLED:
        _ENABLED |= events
        for c in library_codes():
            _mon.set_local_events(TOOL, c, _ENABLED)


def switch_off() -> None:
    _mon.register_callback(TOOL, LINE, None)
    _mon.register_callback(TOOL, INSTRUCTION, None)

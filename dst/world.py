"""Building the simulated world from JSON specs: environments, probe function
extensions, documents, and the canonical outcome of one call.  Used identically
by the simulation side and by the pristine golden process.

Environment spec:
    {"module": true}                                     the module-level DEFAULT_ENV
    {"attrs": {...class attrs...}, "setup": [[name, fspec]...],   registered by an overridden
                                                                  setup_function_extensions()
     "funcs": [[name, fspec]...]}                                 registered afterwards on the instance
Function spec:
    {"args": ["V"|"L"|"N"...], "ret": "V"|"L"|"N", "behav": "first"|"const"|"shape"}
Call spec (golden request):
    {"env": envspec, "q": text, "doc": docspec, "entry": "find"|"apply"|"finditer"|"find_one"|"compile",
     "form": "compiled"|"env"|"module"}
"""

from __future__ import annotations

import threading
from typing import Any
from typing import Dict
from typing import List
from typing import Optional

import jsonpath_rfc9535 as jp
from jsonpath_rfc9535.function_extensions import ExpressionType
from jsonpath_rfc9535.function_extensions import FilterFunction

from gen import docs as D

T = {"V": ExpressionType.VALUE, "L": ExpressionType.LOGICAL, "N": ExpressionType.NODES}


class ProbeFault(Exception):
    """The foreign exception a fault-carrying function extension raises."""


FIRED_BY: List[int] = []  # thread idents, one entry per injected fault that fired


def fired_count(ident: Optional[int] = None) -> int:
    if ident is None:
        return len(FIRED_BY)
    return sum(1 for i in FIRED_BY if i == ident)


def _shape(a: Any) -> int:
    if isinstance(a, jp.JSONPathNodeList):
        return 10 + len(a)
    if a is jp.NOTHING:
        return 1
    if a is None:
        return 2
    if isinstance(a, bool):
        return 3 + int(a)
    if isinstance(a, (int, float)):
        return 5
    if isinstance(a, str):
        return 6
    if isinstance(a, list):
        return 7
    if isinstance(a, dict):
        return 8
    return 9


# A schedule point the history machine may install: called (no arguments) from inside
# "poke" probe functions, i.e. in the middle of a filter evaluation.  It has no effect on
# what the function returns, so the pristine golden run (no hook) computes the same.
REENTRY_HOOK: Optional[Any] = None
_CLASS_CACHE: Dict[str, Any] = {}


def new_at(make: Any, graves: Optional[set], limit: int = 600) -> Any:
    """``make()`` -- but, when ``graves`` holds addresses of objects of that kind that have died,
    allocate until the new object lies where one of them was (the rejects are kept alive meanwhile,
    so the allocator works through its free blocks).  Address reuse after death is what an allocator
    does anyway; here it is made to happen instead of left to chance.  Returns (object, reused)."""
    if not graves:
        return make(), False
    rejects = []
    try:
        for _ in range(limit):
            o = make()
            if id(o) in graves:
                graves.discard(id(o))
                return o, True
            rejects.append(o)
        return rejects.pop(), False
    finally:
        del rejects


def make_function(name: str, fspec: Dict[str, Any], env: Any = None, graves: Optional[Dict[str, set]] = None) -> FilterFunction:
    ret, behav = fspec["ret"], fspec.get("behav", "first")

    def call(self: Any, *args: Any) -> Any:
        self.calls += 1
        if self.fault_at is not None and self.calls >= self.fault_at:
            self.fault_at = None
            self.fired += 1
            FIRED_BY.append(threading.get_ident())
            raise ProbeFault(f"{name} call {self.calls}")
        if behav == "poke" and REENTRY_HOOK is not None:
            REENTRY_HOOK()
        if behav == "reenter_same" and self.env is not None and not getattr(self, "_busy", False):
            # a complete nested evaluation of the compiled query most recently compiled on this
            # environment -- possibly the very one that is calling this function now.  Its result is
            # not used (so the function's value does not depend on what "most recently" means)
            last = getattr(self.env, "_sim_last", None)
            if last is not None:
                self._busy = True
                try:
                    list(last.find(fspec.get("rdoc", [{"a": 0, "b": 5}, {"a": 7, "b": 0}, {"a": 0, "b": 0}])))
                except Exception:  # noqa: BLE001
                    pass
                finally:
                    self._busy = False
        if behav == "reenter" and self.env is not None:
            # a complete nested evaluation on the same environment in the middle of this one
            n = len(self.env.find(fspec.get("rq", "$..a"), fspec.get("rdoc", {"a": [{"a": 1}, 2], "b": {"a": 3}})))
            if ret == "V":
                return n
            if ret == "L":
                return n > 0
        if ret == "N":
            for a in args:
                if isinstance(a, jp.JSONPathNodeList):
                    return a
            return jp.JSONPathNodeList()
        if behav == "typed":
            # a function that tells JSON-distinct but Python-equal arguments apart (1, true, 1.0, -0.0)
            a = args[0] if args else None
            if a is jp.NOTHING:
                t = "nothing"
            elif isinstance(a, jp.JSONPathNodeList):
                t = f"nodes:{len(a)}"
            elif a is None or isinstance(a, (bool, int, float, str)):
                t = f"{type(a).__name__}:{a!r}"
            else:
                t = type(a).__name__
            if ret == "L":
                return t.startswith(("bool", "float"))
            return t
        if ret == "L":
            if behav == "const":
                return True
            if behav == "shape":
                return sum(_shape(a) for a in args) % 2 == 0
            if not args:
                return False
            a = args[0]
            if isinstance(a, jp.JSONPathNodeList):
                return len(a) > 0
            return a is not jp.NOTHING and a is not False
        # value
        if behav == "const":
            return 1
        if behav == "shape":
            return sum((i + 1) * _shape(a) for i, a in enumerate(args))
        if not args:
            return jp.NOTHING
        a = args[0]
        if isinstance(a, jp.JSONPathNodeList):
            return len(a)
        if isinstance(a, bool):
            return int(a)
        return a

    # Users register the same FilterFunction class (or subclasses sharing the parent's
    # class-level arg_types list) on several environments: share the list object between
    # all probe classes with the same argument signature.
    sig = ",".join(fspec["args"])
    base = _CLASS_CACHE.get(sig)
    if base is None:
        base = type(f"ProbeBase_{sig or 'none'}", (FilterFunction,), {"arg_types": [T[a] for a in fspec["args"]], "return_type": T["V"], "__call__": lambda self, *a: None})
        _CLASS_CACHE[sig] = base
    cls = type(f"Probe_{name}", (base,), {"return_type": T[ret], "__call__": call})
    inst, reused = new_at(cls, graves.get("fn") if graves else None)
    if reused:
        graves["reused_fn"] = graves.get("reused_fn", 0) + 1  # type: ignore[assignment,operator]
    inst.env = env
    inst.calls = 0
    inst.fault_at = None
    inst.fired = 0
    return inst


_ENV_ATTRS = ("nondeterministic", "max_recursion_depth", "min_int_index", "max_int_index")


def make_env(spec: Dict[str, Any], graves: Optional[Dict[str, set]] = None, families: Optional[Dict[Any, Any]] = None) -> jp.JSONPathEnvironment:
    if spec.get("module"):
        return jp.DEFAULT_ENV

    def construct(cls: Any) -> Any:
        env, reused = new_at(lambda: cls.__new__(cls), graves.get("env") if graves else None)
        if reused:
            graves["reused_env"] = graves.get("reused_env", 0) + 1  # type: ignore[assignment,operator]
        env.__init__()
        return env

    attrs = {k: v for k, v in (spec.get("attrs") or {}).items() if k in _ENV_ATTRS}
    setup = spec.get("setup") or []
    if spec.get("family") is not None:
        # an inheritance chain: setup_function_extensions() is written ONCE, in the family's base
        # class, and is driven by class attributes that the subclasses override
        if families is None:
            families = {}
        base = families.get(spec["family"])
        if base is None:

            def family_setup(self: Any) -> None:
                jp.JSONPathEnvironment.setup_function_extensions(self)
                for name in type(self)._sim_drop:
                    self.function_extensions.pop(name, None)
                for name, fspec in type(self)._sim_setup:
                    self.function_extensions[name] = make_function(name, fspec, self, graves)

            base = families[spec["family"]] = type("SimFamilyBase", (jp.JSONPathEnvironment,), {"_sim_setup": (), "_sim_drop": (), "setup_function_extensions": family_setup})
        cls = type("SimFamilyMember", (base,), {**attrs, "_sim_setup": tuple((n, f) for n, f in setup), "_sim_drop": tuple(spec.get("drop") or ())})
        env = construct(cls)
        for name, fspec in spec.get("funcs") or []:
            env.function_extensions[name] = make_function(name, fspec, env, graves)
        return env
    if attrs or setup:
        ns: Dict[str, Any] = dict(attrs)
        if setup:

            def setup_function_extensions(self: Any) -> None:
                jp.JSONPathEnvironment.setup_function_extensions(self)
                for name, fspec in setup:
                    self.function_extensions[name] = make_function(name, fspec, self, graves)

            ns["setup_function_extensions"] = setup_function_extensions
        cls = type("SimEnv", (jp.JSONPathEnvironment,), ns)
        env = construct(cls)
    else:
        env = construct(jp.JSONPathEnvironment)
    for name, fspec in spec.get("funcs") or []:
        env.function_extensions[name] = make_function(name, fspec, env, graves)
    return env


def canon_node(node: Any) -> List[Any]:
    return [list(node.location), D.canon(node.value)]


def call(env: jp.JSONPathEnvironment, compiled: Any, q: str, doc: Any, entry: str, form: str) -> Any:
    """Perform one API call and return what it returns (iterator for finditer)."""
    if form == "compiled":
        target = compiled
        if entry == "find":
            return target.find(doc)
        if entry == "apply":
            return target.apply(doc)
        if entry == "finditer":
            return target.finditer(doc)
        if entry == "find_one":
            return target.find_one(doc)
    elif form == "module":
        if entry in ("find", "apply"):
            return jp.find(q, doc)
        if entry == "finditer":
            return jp.finditer(q, doc)
        if entry == "find_one":
            return jp.find_one(q, doc)
    else:
        if entry in ("find", "apply"):
            return env.find(q, doc)
        if entry == "finditer":
            return env.finditer(q, doc)
        if entry == "find_one":
            return env.find_one(q, doc)
    raise ValueError((entry, form))


def outcome_of_call(fn: Any, entry: str, doc_root: Any = None, keep: Optional[List[Any]] = None, raw: Optional[List[Any]] = None) -> Dict[str, Any]:
    """Canonical outcome {"nodes": [...], "end": "stop"|<ExcClass>, "ident": bool}.

    keep: if given, the returned node objects themselves are appended to it (so the
    caller can check later that they have not been changed by later calls)."""
    nodes: List[Any] = []
    ident = True

    def add(n: Any) -> None:
        nonlocal ident
        nodes.append(canon_node(n))
        if keep is not None:
            keep.append(n)
        if doc_root is not None:
            try:
                at = D.get(doc_root, n.location)
                if isinstance(at, (list, dict)):
                    ident = ident and at is n.value
            except Exception:  # noqa: BLE001
                ident = False

    try:
        res = fn()
        if raw is not None:
            raw.append(res)
        if entry == "finditer":
            for n in res:
                add(n)
        elif entry == "find_one":
            if res is not None:
                add(res)
        else:
            for n in res:
                add(n)
        end = "stop"
    except Exception as exc:  # noqa: BLE001
        end = type(exc).__name__
    except RecursionError:
        end = "RecursionError"
    return {"nodes": nodes, "end": end, "ident": ident}


def remember_compiled(env: Any, compiled: Any) -> None:
    """What "reenter_same" probe functions re-enter (see make_function)."""
    try:
        env._sim_last = compiled
    except Exception:  # noqa: BLE001
        pass


def solitary(spec: Dict[str, Any]) -> Dict[str, Any]:
    """The one call of *spec*, performed on its own in this (pristine) process."""
    env = make_env(spec["env"])
    entry, form, q = spec["entry"], spec["form"], spec["q"]
    if entry == "compile":
        try:
            c = jp.compile(q) if form == "module" else env.compile(q)
            return {"nodes": [], "end": "stop", "ident": True, "str": _safe_str(c)}
        except Exception as exc:  # noqa: BLE001
            return {"nodes": [], "end": type(exc).__name__, "ident": True}
    doc = D.build(spec["doc"])
    compiled: Optional[Any] = None
    if form == "compiled":
        try:
            compiled = env.compile(q)
        except Exception as exc:  # noqa: BLE001
            return {"nodes": [], "end": "compile:" + type(exc).__name__, "ident": True}
        remember_compiled(env, compiled)
    return outcome_of_call(lambda: call(env, compiled, q, doc, entry, form), entry, doc)


def _safe_str(c: Any) -> str:
    try:
        return str(c)
    except Exception as exc:  # noqa: BLE001
        return f"<str() raised {type(exc).__name__}>"

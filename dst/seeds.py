"""One integer decides everything.

``VERIF_SEED`` -> per-run seed -> named independent streams.  No code on a
logging or evidence path draws from a stream.
"""

from __future__ import annotations

import hashlib
import os
import random


def base_seed() -> int:
    try:
        return int(os.environ.get("VERIF_SEED", "0"))
    except ValueError:
        return 0


def _h(text: str) -> int:
    return int.from_bytes(hashlib.sha256(text.encode()).digest()[:8], "big")


def run_seed(base: int, prop: str, tier: str, index: int) -> int:
    """Seed of run *index* of check *prop* at *tier*."""
    return _h(f"{base}/{prop}/{tier}/{index}")


def stream(seed: int, name: str) -> random.Random:
    """An independent PRNG stream of a run.

    Adding a draw to one stream never shifts another.
    """
    return random.Random(_h(f"{seed}/{name}"))


def digest(obj: object) -> str:
    """Stable digest of a JSON-able event log (order preserved)."""
    import json

    return hashlib.sha256(
        json.dumps(obj, sort_keys=True, default=repr, ensure_ascii=True).encode()
    ).hexdigest()[:16]

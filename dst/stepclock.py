"""The simulator's logical clock: one step = one ``line`` trace event inside
library code (files under <repo>/jsonpath_rfc9535).  A per-run cap aborts the
run by raising a private BaseException from the tracer -- no wall clock involved,
so "hang" verdicts are deterministic and replayable.
"""

from __future__ import annotations

import os
import sys
from typing import Any
from typing import Callable
from typing import Optional

import jsonpath_rfc9535

LIB_DIR = os.path.dirname(os.path.abspath(jsonpath_rfc9535.__file__)) + os.sep


class StepBudgetExceeded(BaseException):
    def __init__(self, steps: int) -> None:
        super().__init__(f"step budget exceeded at step {steps}")
        self.steps = steps


class StepClock:
    def __init__(self, cap: int) -> None:
        self.cap = cap
        self.steps = 0
        self._prev: Optional[Callable[..., Any]] = None

    def _local(self, frame: Any, event: str, arg: Any) -> Any:
        if event == "line":
            self.steps += 1
            if self.steps > self.cap:
                raise StepBudgetExceeded(self.steps)
        return self._local

    def _global(self, frame: Any, event: str, arg: Any) -> Any:
        if frame.f_code.co_filename.startswith(LIB_DIR):
            return self._local
        return None

    def __enter__(self) -> "StepClock":
        self._prev = sys.gettrace()
        sys.settrace(self._global)
        return self

    def __exit__(self, *exc: Any) -> None:
        sys.settrace(self._prev)

"""The simulator's logical clock: one step = one ``line`` event inside library
code (files under <repo>/jsonpath_rfc9535), delivered by ``sys.monitoring``
(dst.monitor).  A per-run cap aborts the run by raising a private BaseException
from the callback -- no wall clock involved, so "hang" verdicts are deterministic
and replayable.
"""

from __future__ import annotations

from typing import Any

from . import monitor
from .monitor import LIB_DIR  # noqa: F401  (re-exported)


class StepBudgetExceeded(BaseException):
    def __init__(self, steps: int) -> None:
        super().__init__(f"step budget exceeded at step {steps}")
        self.steps = steps


class StepClock:
    def __init__(self, cap: int) -> None:
        self.cap = cap
        self.steps = 0

    def _on_line(self, code: Any, line: int) -> Any:
        self.steps += 1
        if self.steps > self.cap:
            # (raised again only every thousand further steps: the frames being unwound -- generator
            # finalisers, context managers -- execute a few more lines, and need not each be
            # interrupted in turn; code that swallows the exception and goes on is stopped again)
            if (self.steps - self.cap) % 1000 == 1:
                raise StepBudgetExceeded(self.steps)

    def __enter__(self) -> "StepClock":
        monitor.switch_on(self._on_line, None)
        return self

    def __exit__(self, *exc: Any) -> None:
        monitor.switch_off()

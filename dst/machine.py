"""The history machine: one interpreter holding DEFAULT_ENV, a pool of
environments, compiled queries, documents and live iterators, driven by a
recorded list of operations.  Every judged operation is compared with the
pristine solitary run of *that operation's spec* (dst.golden).

Objects are referred to by the id the creating op gave them, so that dropping
ops while shrinking never changes what the remaining ops mean; an op whose
referents do not exist is skipped.

Used by C14 (histories), C16-A (iterator interleavings on one thread) and
C16-B (the same ops executed by baton-scheduled threads).
"""

from __future__ import annotations

import copy
import gc
import sys
import threading
from collections import Counter
from typing import Any
from typing import Callable
from typing import Dict
from typing import List
from typing import Optional

import jsonpath_rfc9535 as jp

from gen import docs as D

from . import golden
from . import monitor
from . import sched
from . import seeds
from . import world


def _regex_mod() -> Any:
    try:
        import regex.regex as rr

        return rr if hasattr(rr, "_MAXCACHE") and hasattr(rr, "_cache") else None
    except Exception:  # noqa: BLE001
        return None


_RR = _regex_mod()
_RR_DEFAULT = getattr(_RR, "_MAXCACHE", None)


class Machine:
    def __init__(self, knobs: Optional[Dict[str, Any]] = None, gc_hook: Optional[Callable[[], None]] = None) -> None:
        self.knobs = knobs or {}
        self.envs: Dict[str, Dict[str, Any]] = {"module": {"spec": {"module": True}, "obj": jp.DEFAULT_ENV, "fns": {}}}
        self.compiled: Dict[str, Dict[str, Any]] = {}
        self.docs: Dict[str, Dict[str, Any]] = {}
        self.iters: Dict[str, Dict[str, Any]] = {}
        self.violations: List[Dict[str, Any]] = []
        self.events: List[Any] = []
        self.stats: Counter = Counter()
        self.seen_calls: List[Dict[str, Any]] = []
        self.op_index = -1
        self.sigs: List[str] = []
        self.kept_results: List[Any] = []
        # addresses of dead objects, by kind: new ones are made to lie there (world.new_at)
        self.graves: Dict[str, Any] = {"fn": set(), "env": set()}
        self.morgue: List[Any] = []  # roots of documents that died (see op_forget_doc)
        self.families: Dict[Any, Any] = {}  # base classes of environment families (world.make_env)
        self._gc_at: Optional[int] = None  # armed collection (op_arm_gc)
        self._orphans: List[Any] = []
        self.pinned_docs: set = set()  # documents other documents share objects with
        self._tl = threading.local()
        world.REENTRY_HOOK = self._reentry
        del world.FIRED_BY[:]
        if _RR is not None:
            _RR._cache.clear()
            if hasattr(_RR, "_named_args"):
                _RR._named_args.clear()
            _RR._MAXCACHE = self.knobs.get("regex_maxcache") or _RR_DEFAULT

    def _reentry(self) -> None:
        """Called from inside a 'poke' probe function, i.e. in the middle of a filter
        evaluation: advance some other live iterator by one node right now."""
        if getattr(self._tl, "in_reentry", False):
            return
        self._tl.in_reentry = True
        try:
            for iid in sorted(self.iters):
                rec = self.iters[iid]
                if rec["state"] == "live" and not rec.get("busy"):
                    self.stats["probe_reentrant_advance_inside_filter"] += 1
                    self.events.append(["reentry", self.op_iter_next({"it": iid, "n": 1})])
                    break
        finally:
            self._tl.in_reentry = False

    def close(self) -> None:
        world.REENTRY_HOOK = None
        for it in self.iters.values():
            it["it"] = None
        if _RR is not None:
            _RR._MAXCACHE = _RR_DEFAULT

    # ------------------------------------------------------------------
    def _violate(self, cls: str, what: str) -> None:
        label = getattr(self._tl, "label", f"op#{self.op_index}")
        self.violations.append({"class": cls, "what": f"{label}: {what}", "op_index": self.op_index})

    def _fired(self) -> int:
        """Injected faults that fired inside evaluations performed by the calling thread."""
        return world.fired_count(threading.get_ident())

    def _env_golden_spec(self, spec: Dict[str, Any]) -> Dict[str, Any]:
        if spec.get("module"):
            return spec
        g = copy.deepcopy(spec)
        if g.get("attrs", {}).get("nondeterministic"):
            g["attrs"]["nondeterministic"] = False
        return g

    def _is_nondet(self, spec: Dict[str, Any]) -> bool:
        return bool(spec.get("attrs", {}).get("nondeterministic"))

    def check_docs(self) -> None:
        for did, d in self.docs.items():
            if D.snapshot(d["obj"]) != d["snap"]:
                self._violate("doc-mutated", f"document {did} differs from its creation snapshot")
                d["snap"] = D.snapshot(d["obj"])  # report once

    def _compare(self, what: str, obs: Dict[str, Any], gspec: Dict[str, Any], nondet: bool) -> None:
        gold = golden.ask(gspec)
        self.stats["judged_ops"] += 1
        if not obs.get("ident", True) and gold.get("ident", True):
            # (relative to the solitary run: a tree whose nodes always carry copies is not judged here)
            self._violate("node-identity", f"{what}: a result node's value is not the document object at its location, although it is in a solitary run")
        if nondet and gspec["entry"] == "find_one":
            # any node of the full result may come first in nondeterministic mode
            full = golden.ask({**gspec, "entry": "finditer"})
            if full["end"] != "stop":
                # the evaluation as a whole raises (somewhere): a call that stops at the first node
                # may get there before or after the member that raises is looked at, depending on the
                # order -- either a node or that exception; which node cannot be judged
                same = obs["end"] in ("stop", full["end"])
                self.stats["find_one_on_a_nondeterministic_environment_whose_full_evaluation_raises"] += 1
            else:
                same = obs["end"] == gold["end"] and len(obs["nodes"]) == len(gold["nodes"]) and all(n in full["nodes"] for n in obs["nodes"])
        elif nondet and gold["end"] != "stop":
            # the solitary (deterministic) run raised: so must this one; which nodes either of them
            # had delivered by then is a matter of visiting order and of when the limit is checked
            same = obs["end"] == gold["end"]
        elif nondet:
            same = Counter(map(repr, obs["nodes"])) == Counter(map(repr, gold["nodes"])) and obs["end"] == gold["end"]
        else:
            same = obs["nodes"] == gold["nodes"] and obs["end"] == gold["end"]
        if not same and nondet and obs["end"] not in ("stop", gold["end"]):
            # find_one() and friends stop early in the deterministic solitary run; a nondeterministic
            # evaluation may meet the limit (anywhere in the value) before it delivers its first
            # node.  Raising what the evaluation AS A WHOLE raises is not interference.
            full = golden.ask({**gspec, "entry": "finditer"})
            same = full["end"] == obs["end"]
        if not same:
            self._violate(
                "differs-from-solitary",
                f"{what}: observed {len(obs['nodes'])} nodes end={obs['end']} "
                f"{_brief(obs['nodes'])}; pristine solitary run gives {len(gold['nodes'])} nodes end={gold['end']} {_brief(gold['nodes'])}",
            )

    # ------------------------------------------------------------------
    def step(self, op: Dict[str, Any], actor: Optional[str] = None) -> None:
        self.op_index += 1
        self._tl.label = f"op#{self.op_index}" if actor is None else f"{actor}/op#{self.op_index}"
        kind = op["op"]
        fn = getattr(self, "op_" + kind)
        before = self._fired()
        gc_at = self._gc_at if actor is None else None
        if gc_at is not None and kind in ("iter_next", "apply", "env_call", "iter_open", "iter_close", "compile"):
            # a cyclic garbage collection at the k-th line the library executes inside this call:
            # finalisers of abandoned iterators run there, in the middle of whatever the call is doing
            self._gc_at = None
            seen = [0]

            def on_line(code: Any, line: int) -> Any:
                seen[0] += 1
                if seen[0] == gc_at:
                    self.stats["probe_collection_inside_a_library_call"] += 1
                    gc.collect()

            monitor.switch_on(on_line, None)
            try:
                ev = fn(op, actor) if kind == "iter_next" else fn(op)
            finally:
                monitor.switch_off()
        else:
            ev = fn(op, actor) if kind == "iter_next" else fn(op)
        if self._fired() != before:
            self.stats["fault_fired_function_raise"] += self._fired() - before
        self.events.append([kind, ev] if actor is None else [actor, kind, ev])
        if kind not in ("new_doc", "new_env", "mutate_doc"):
            self.check_docs()

    # -- creation ---------------------------------------------------------
    def op_new_doc(self, op: Dict[str, Any]) -> Any:
        spec = op["spec"]
        if "member_of" in spec:
            # a value that IS one of another document's own containers (same object)
            src = self.docs.get(spec["member_of"])
            if src is None or "json" not in src["spec"]:
                return "skip"
            conts = [(loc, v) for loc, v in _walk_containers(src["obj"]) if loc]
            if not conts:
                return "skip"
            loc, obj = conts[spec["pick"] % len(conts)]
            self.pinned_docs.update((spec["member_of"], op["id"]))
            gspec = {"json": copy.deepcopy(D.get(src["spec"]["json"], loc))}
            self.stats["docs_that_are_members_of_another"] += 1
            self.docs[op["id"]] = {"spec": gspec, "obj": obj, "snap": D.snapshot(obj)}
            return "ok"
        if "graft_of" in spec:
            # a different document built around some of another document's own sub-objects:
            # same shape, other content, but the containers at the given paths are shared by identity
            src = self.docs.get(spec["graft_of"])
            if src is None or "json" not in src["spec"]:
                return "skip"
            obj = copy.deepcopy(spec["json"])
            gjson = copy.deepcopy(spec["json"])
            shared = 0
            for loc in spec["share"]:
                loc = tuple(loc)
                try:
                    theirs = D.get(src["obj"], loc)
                    mine_parent = D.get(obj, loc[:-1])
                    gparent = D.get(gjson, loc[:-1])
                    if not isinstance(theirs, (list, dict)) or not loc:
                        continue
                    mine_parent[loc[-1]] = theirs
                    gparent[loc[-1]] = copy.deepcopy(D.get(src["spec"]["json"], loc))
                    shared += 1
                except (KeyError, IndexError, TypeError):
                    continue
            self.pinned_docs.update((spec["graft_of"], op["id"]))
            if shared:
                self.stats["docs_grafted_on_shared_subobjects"] += 1
            self.docs[op["id"]] = {"spec": {"json": gjson}, "obj": obj, "snap": D.snapshot(obj)}
            return "ok"
        if "wrap" in spec:
            src = self.docs.get(spec["wrap"])
            if src is None or "json" not in src["spec"]:
                return "skip"
            if spec["as"] == "list":
                obj: Any = [src["obj"], 1, src["obj"]]
                gjson: Any = [src["spec"]["json"], 1, src["spec"]["json"]]
            else:
                obj = {"a": src["obj"], "b": [src["obj"]]}
                gjson = {"a": src["spec"]["json"], "b": [src["spec"]["json"]]}
            gspec = {"json": gjson}
            self.pinned_docs.update((spec["wrap"], op["id"]))
            self.stats["docs_sharing_subobjects"] += 1
        else:
            gspec = spec
            obj = D.build(spec)
            for k, dead in enumerate(self.morgue):
                if type(dead) is type(obj):
                    # the new document's root lies where a dead document's root was
                    del self.morgue[k]
                    dead.clear()
                    if isinstance(dead, list):
                        dead.extend(obj)
                    else:
                        dead.update(obj)
                    obj = dead
                    self.stats["probe_document_root_allocated_where_a_dead_root_was"] += 1
                    break
            dead = None
        self.docs[op["id"]] = {"spec": gspec, "obj": obj, "snap": D.snapshot(obj)}
        return "ok"

    def op_forget_doc(self, op: Dict[str, Any]) -> Any:
        """The caller lets go of a document and of what was obtained from it (live iterators,
        results); a collection follows."""
        did = op["doc"]
        d = self.docs.get(did)
        if d is None or did in self.pinned_docs or "json" not in d["spec"]:
            return "skip"
        for rec in self.iters.values():
            if rec["doc"] == did:
                rec["it"] = None
                if rec["state"] == "live":
                    rec["state"] = "dropped"
        self.seen_calls = [c for c in self.seen_calls if c["doc"] != did]
        self.kept_results = [k for k in self.kept_results if k[3] != did]
        obj = self.docs.pop(did)["obj"]
        d = None
        gc.collect()
        self.stats["docs_forgotten_and_collected"] += 1
        # Is ``obj`` (this frame's variable) the last reference?  Then the document dies here, and
        # its address is free for the next container the allocator hands out.  Which one that is,
        # is the allocator's business and not repeatable -- so the death is kept on record instead:
        # the dead root is parked and the next document of that kind is built IN it (emptied
        # first), which is exactly what address reuse looks like from the library's side.  A
        # container the library still refers to (a result cache, say) would not have died, and is
        # not reused.
        if isinstance(obj, (list, dict)):
            if sys.getrefcount(obj) == 2:
                self.morgue.append(obj)
            else:
                self.stats["docs_forgotten_but_still_referenced_from_elsewhere"] += 1
        return "ok"

    def op_mutate_doc(self, op: Dict[str, Any]) -> Any:
        """The CALLER changes a document in place between two operations (allowed:
        the next application must see the data as it is now)."""
        d = self.docs.get(op["doc"])
        if d is None or "json" not in d["spec"]:
            return "skip"
        try:
            target = D.get(d["obj"], tuple(op["path"]))
            act = op["action"]
            if act == "set" and isinstance(target, dict):
                target[op["key"]] = copy.deepcopy(op["value"])
            elif act == "del" and isinstance(target, dict) and op["key"] in target:
                del target[op["key"]]
            elif act == "append" and isinstance(target, list):
                target.append(copy.deepcopy(op["value"]))
            elif act == "pop" and isinstance(target, list) and target:
                target.pop()
            elif act == "set" and isinstance(target, list) and isinstance(op["key"], int) and -len(target) <= op["key"] < len(target):
                target[op["key"]] = copy.deepcopy(op["value"])
            else:
                return "skip"
        except (KeyError, IndexError, TypeError):
            return "skip"
        d["spec"] = {"json": copy.deepcopy(d["obj"])}
        d["snap"] = D.snapshot(d["obj"])
        if not hasattr(self, "_mutated_docs"):
            self._mutated_docs = set()
        self._mutated_docs.add(op["doc"])
        # what a half-consumed iterator over this document yields from now on is not specified
        for rec in self.iters.values():
            if rec["doc"] == op["doc"] and rec["state"] == "live":
                rec["faulted"] = True
        self.stats["docs_mutated_by_caller"] += 1
        return [op["doc"], op["action"]]

    def op_new_env(self, op: Dict[str, Any]) -> Any:
        spec = copy.deepcopy(op["spec"])
        spec.setdefault("funcs", [])
        before = (self.graves.get("reused_env", 0), self.graves.get("reused_fn", 0))
        env = world.make_env(spec, self.graves, self.families)
        if self.graves.get("reused_env", 0) != before[0]:
            self.stats["probe_environment_allocated_where_a_dead_one_was"] += 1
        if self.graves.get("reused_fn", 0) != before[1]:
            self.stats["probe_function_allocated_where_a_dead_one_was"] += 1
        fns = {name: f for name, f in env.function_extensions.items() if hasattr(f, "fault_at")}
        self.envs[op["id"]] = {"spec": spec, "obj": env, "fns": fns}
        self.stats["envs_created"] += 1
        if spec.get("attrs") or spec.get("setup"):
            self.stats["env_subclasses_created"] += 1
        return "ok"

    def op_forget_env(self, op: Dict[str, Any]) -> Any:
        """The caller lets go of an environment and of everything obtained from it (compiled
        queries, live iterators); a collection follows, so later objects may well be allocated
        where these were."""
        eid = op["env"]
        if eid == "module" or eid not in self.envs:
            return "skip"
        e = self.envs[eid]
        self.graves["env"].add(id(e["obj"]))
        self.graves["fn"].update(id(f) for f in e["obj"].function_extensions.values() if hasattr(f, "fault_at"))
        del e
        for cid in [k for k, c in self.compiled.items() if c["env"] == eid]:
            del self.compiled[cid]
        for rec in self.iters.values():
            if rec.get("env_id") == eid:
                rec["it"] = None
                if rec["state"] == "live":
                    rec["state"] = "dropped"
        self.seen_calls = [c for c in self.seen_calls if c["env_id"] != eid]
        del self.envs[eid]
        gc.collect()
        self.stats["envs_forgotten_and_collected"] += 1
        return "ok"

    def op_register(self, op: Dict[str, Any]) -> Any:
        e = self.envs.get(op["env"])
        if e is None or e["spec"].get("module"):
            return "skip"
        name = op["name"]
        if name in e["obj"].function_extensions:
            if not op.get("override"):
                return "skip"  # additive registration only, as a rule
            # REPLACING a name (a built-in's, say): the library binds names at evaluation time by
            # design, so what this environment compiled before now means something else -- those
            # queries and their iterators are no longer judged.  Everything else is: other
            # environments, the module-level functions, and new compiles on this one.
            for cid in [k for k, c in self.compiled.items() if c["env"] == op["env"]]:
                del self.compiled[cid]
            for rec in self.iters.values():
                if rec.get("env_id") == op["env"] and rec["state"] == "live":
                    rec["faulted"] = True
            self.seen_calls = [c for c in self.seen_calls if not (c["env_id"] == op["env"] and c["form"] == "compiled")]
            self.stats["registrations_replacing_a_name"] += 1
        f = world.make_function(name, op["fspec"], e["obj"], self.graves)
        e["obj"].function_extensions[name] = f
        e["spec"]["funcs"].append([name, op["fspec"]])
        e["fns"][name] = f
        self.stats["registrations"] += 1
        # same name with a different signature on another environment?
        for oid, other in self.envs.items():
            if oid != op["env"] and name in other["fns"]:
                osig = next((fs for n, fs in other["spec"].get("funcs", []) + other["spec"].get("setup", []) if n == name), None)
                if osig is not None and (osig["args"], osig["ret"]) != (op["fspec"]["args"], op["fspec"]["ret"]):
                    self.stats["probe_same_name_different_signature"] += 1
        return "ok"

    def op_arm_fault(self, op: Dict[str, Any]) -> Any:
        e = self.envs.get(op["env"])
        if e is None or op["name"] not in e["fns"]:
            return "skip"
        f = e["fns"][op["name"]]
        f.fault_at = f.calls + op["k"]
        self.stats["faults_armed"] += 1
        return "ok"

    # -- compile ------------------------------------------------------------
    def op_compile(self, op: Dict[str, Any]) -> Any:
        e = self.envs.get(op["env"])
        if e is None:
            return "skip"
        q = op["q"]
        envspec = copy.deepcopy(e["spec"])
        try:
            with sched.in_library():
                c = jp.compile(q) if envspec.get("module") else e["obj"].compile(q)
            exc = None
        except Exception as exc_:  # noqa: BLE001
            c, exc = None, type(exc_).__name__
            self.stats[f"compile_error_{exc}"] += 1
        if c is not None and not envspec.get("module"):
            world.remember_compiled(e["obj"], c)
        self.compiled[op["id"]] = {"env": op["env"], "q": q, "obj": c, "exc": exc, "envspec": envspec}
        obs = {"nodes": [], "end": exc or "stop", "ident": True}
        form = "module" if envspec.get("module") else "env"
        gspec = {"env": self._env_golden_spec(envspec), "q": q, "entry": "compile", "form": form}
        self._compare(f"compile {q!r} on env {op['env']}", obs, gspec, False)
        if c is not None:
            # the compiled query's own rendering: same text compiled alone gives the same query
            mine, gold = world._safe_str(c), golden.ask(gspec).get("str")
            if gold is not None and mine != gold:
                self._violate("compiled-query-differs-from-solitary", f"compile {q!r} on env {op['env']}: str(query) is {mine!r}; compiled on its own it is {gold!r}")
        self.stats["compiles"] += 1
        return [q, exc]

    # -- calls ----------------------------------------------------------------
    def _do_call(self, what: str, envspec: Dict[str, Any], env: Any, compiled: Any, q: str, did: str, entry: str, form: str, use_copy: bool, remember: bool = True, env_id: Optional[str] = None, scribble: bool = False) -> Any:
        d = self.docs[did]
        obj = copy.deepcopy(d["obj"]) if use_copy else d["obj"]
        before = self._fired()
        kept: List[Any] = []
        raw: List[Any] = []
        with sched.in_library():
            obs = world.outcome_of_call(lambda: world.call(env, compiled, q, obj, entry, form), entry, obj, kept, raw)
        if scribble and raw and isinstance(raw[0], list):
            # the returned list is the caller's: whatever the caller does to it is no business of later calls
            lst = raw[0]
            lst.reverse()
            if lst:
                lst.pop()
            lst.append(None)
            self.stats["results_scribbled_on_by_caller"] += 1
        if kept and not use_copy and not scribble and len(self.kept_results) < 40:
            # what a call returned belongs to the caller: no later call may change the
            # node objects, nor the list object that holds them
            holder = raw[0] if raw and isinstance(raw[0], list) else kept
            self.kept_results.append((what, holder, [world.canon_node(n) for n in kept], did))
        if use_copy and D.snapshot(obj) != d["snap"]:
            self._violate("doc-mutated", f"{what}: the (copied) document was modified by the call")
        faulted = self._fired() != before
        gspec = {"env": self._env_golden_spec(envspec), "q": q, "doc": d["spec"], "entry": entry, "form": form}
        nondet = self._is_nondet(envspec)
        if faulted:
            self.stats["ops_unjudged_fault_fired_inside"] += 1
        else:
            self._compare(what, obs, gspec, nondet)
            if remember:
                self.seen_calls.append({"what": what, "envspec": envspec, "env_id": env_id, "env": env, "compiled": compiled, "q": q, "doc": did, "entry": entry, "form": form})
        self.sigs.append(seeds.digest([entry, form, q, obs["end"], len(obs["nodes"])]))
        return [q, did, entry, form, obs["end"], seeds.digest(obs["nodes"]) if not nondet else len(obs["nodes"])]

    def op_apply(self, op: Dict[str, Any]) -> Any:
        c = self.compiled.get(op["c"])
        if c is None or c["obj"] is None or op["doc"] not in self.docs:
            return "skip"
        self.stats[f"calls_compiled_{op['entry']}"] += 1
        e = self.envs[c["env"]]
        return self._do_call(f"{op['entry']}() of compiled {c['q']!r} (env {c['env']}) on doc {op['doc']}", c["envspec"], e["obj"], c["obj"], c["q"], op["doc"], op["entry"], "compiled", bool(op.get("copy")), env_id=c["env"], scribble=bool(op.get("scribble")))

    def op_env_call(self, op: Dict[str, Any]) -> Any:
        e = self.envs.get(op["env"])
        if e is None or op["doc"] not in self.docs:
            return "skip"
        form = "module" if e["spec"].get("module") else "env"
        self.stats[f"calls_{form}_{op['entry']}"] += 1
        if form == "module" and self.stats["registrations"]:
            self.stats["probe_module_call_after_registration_elsewhere"] += 1
        return self._do_call(f"{form} {op['entry']}({op['q']!r}) env {op['env']} on doc {op['doc']}", copy.deepcopy(e["spec"]), e["obj"], None, op["q"], op["doc"], op["entry"], form, bool(op.get("copy")), env_id=op["env"], scribble=bool(op.get("scribble")))

    # -- iterators ------------------------------------------------------------
    def op_iter_open(self, op: Dict[str, Any]) -> Any:
        if op["doc"] not in self.docs:
            return "skip"
        d = self.docs[op["doc"]]
        if "c" in op:
            c = self.compiled.get(op["c"])
            if c is None or c["obj"] is None:
                return "skip"
            envspec, q, form = c["envspec"], c["q"], "compiled"
            thunk = lambda: c["obj"].finditer(d["obj"])  # noqa: E731
        else:
            e = self.envs.get(op["env"])
            if e is None:
                return "skip"
            envspec, q = copy.deepcopy(e["spec"]), op["q"]
            form = "module" if envspec.get("module") else "env"
            thunk = (lambda: jp.finditer(q, d["obj"])) if form == "module" else (lambda: e["obj"].finditer(q, d["obj"]))
        gspec = {"env": self._env_golden_spec(envspec), "q": q, "doc": d["spec"], "entry": "finditer", "form": form}
        rec = {"spec": gspec, "nondet": self._is_nondet(envspec), "got": [], "state": "live", "doc": op["doc"], "q": q, "it": None, "faulted": False, "threads": set(), "env_id": c["env"] if "c" in op else op["env"]}
        try:
            with sched.in_library():
                rec["it"] = iter(thunk())
        except Exception as exc:  # noqa: BLE001
            # finditer on an environment compiles first: an invalid query surfaces here
            rec["state"] = "raised"
            self._finish_iter(op["id"], rec, type(exc).__name__)
        self.iters[op["id"]] = rec
        self.stats["iters_opened"] += 1
        return [q, op["doc"], form, rec["state"]]

    def _finish_iter(self, iid: str, rec: Dict[str, Any], end: str) -> None:
        if rec["faulted"]:
            self.stats["iters_unjudged_fault_fired_inside"] += 1
            return
        obs = {"nodes": rec["got"], "end": end, "ident": rec.get("ident", True)}
        self._compare(f"iterator {iid} ({rec['q']!r} on doc {rec['doc']}) consumed to its end", obs, rec["spec"], rec["nondet"])
        self.sigs.append(seeds.digest(["iter", rec["q"], end, len(rec["got"])]))

    def _check_prefix(self, iid: str, rec: Dict[str, Any]) -> None:
        if rec["faulted"]:
            return
        gold = golden.ask(rec["spec"])
        got, want = rec["got"], gold["nodes"]
        if rec["nondet"] and gold["end"] != "stop":
            ok = True  # (the solitary run raises: only the end is judged, see _compare)
        elif rec["nondet"]:
            ok = not (Counter(map(repr, got)) - Counter(map(repr, want)))
        else:
            ok = got == want[: len(got)]
        self.stats["judged_iter_prefixes"] += 1
        if not ok:
            self._violate(
                "iterator-differs-from-solitary",
                f"iterator {iid} ({rec['q']!r} on doc {rec['doc']}): yielded {_brief(got)} which is not a prefix of the solitary sequence {_brief(want)}",
            )

    def op_iter_next(self, op: Dict[str, Any], thread: Optional[str] = None) -> Any:
        rec = self.iters.get(op["it"])
        if rec is None or rec["state"] != "live" or rec.get("busy"):
            return "skip"
        rec["busy"] = True
        if thread is not None:
            rec["threads"].add(thread)
            if len(rec["threads"]) >= 2:
                self.stats["probe_iterator_advanced_by_2_threads"] += 1
        d = self.docs[rec["doc"]]
        n_got = 0
        end = None
        before = self._fired()
        try:
            for _ in range(op.get("n", 1)):
                try:
                    with sched.in_library():
                        node = next(rec["it"])
                except StopIteration:
                    end = "stop"
                    break
                except Exception as exc:  # noqa: BLE001
                    end = type(exc).__name__
                    break
                rec["got"].append(world.canon_node(node))
                try:
                    at = D.get(d["obj"], node.location)
                    if isinstance(at, (list, dict)) and at is not node.value:
                        rec["ident"] = False
                except Exception:  # noqa: BLE001
                    rec["ident"] = False
                n_got += 1
        finally:
            rec["busy"] = False
        if self._fired() != before:
            rec["faulted"] = True
        self.stats["iter_next_calls"] += n_got + (1 if end else 0)
        if end is not None:
            rec["state"] = "exhausted" if end == "stop" else "raised"
            rec["it"] = None
            self._finish_iter(op["it"], rec, end)
        else:
            self._check_prefix(op["it"], rec)
        return [op["it"], n_got, end]

    def op_iter_close(self, op: Dict[str, Any]) -> Any:
        rec = self.iters.get(op["it"])
        if rec is None or rec["state"] != "live" or rec.get("busy"):
            return "skip"
        try:
            close = getattr(rec["it"], "close", None)
            if close is not None:
                with sched.in_library():
                    close()
        except Exception as exc:  # noqa: BLE001
            self._violate("close-raised", f"closing iterator {op['it']} raised {type(exc).__name__}")
        rec["state"] = "closed"
        rec["it"] = None
        self.stats["iters_closed_half_way"] += 1
        if rec["got"]:
            self.stats["probe_closed_after_yielding"] += 1
        self._check_prefix(op["it"], rec)
        return [op["it"], len(rec["got"])]

    def op_iter_orphan(self, op: Dict[str, Any]) -> Any:
        """The caller loses its last reference to a half-consumed iterator that sits in a reference
        cycle: it stays alive (suspended wherever it is) until a cyclic collection finalises it."""
        rec = self.iters.get(op["it"])
        if rec is None or rec["state"] != "live" or rec.get("busy"):
            return "skip"
        cell: List[Any] = [rec["it"]]
        cell.append(cell)
        del cell
        rec["it"] = None
        rec["state"] = "dropped"
        self.stats["iters_orphaned_in_a_reference_cycle"] += 1
        self._check_prefix(op["it"], rec)
        return [op["it"], len(rec["got"])]

    def op_arm_gc(self, op: Dict[str, Any]) -> Any:
        self._gc_at = int(op["k"])
        return "ok"

    def op_iter_drop(self, op: Dict[str, Any]) -> Any:
        rec = self.iters.get(op["it"])
        if rec is None or rec["state"] != "live" or rec.get("busy"):
            return "skip"
        rec["it"] = None
        rec["state"] = "dropped"
        gc.collect()
        self.stats["iters_dropped_half_way"] += 1
        self._check_prefix(op["it"], rec)
        return [op["it"], len(rec["got"])]

    # -- end of history -------------------------------------------------------
    def final_recheck(self) -> None:
        """Every distinct judged call seen is run once more and compared again."""
        self.op_index += 1
        self._tl.label = "final"
        seen = set()
        for c in list(self.seen_calls):
            key = (id(c["env"]), id(c["compiled"]), c["q"], c["doc"], c["entry"], c["form"])
            if key in seen:
                continue
            seen.add(key)
            # an environment-level call compiles again, against the registry as it is now
            envspec = c["envspec"] if c["form"] == "compiled" else copy.deepcopy(self.envs[c["env_id"]]["spec"])
            ev = self._do_call("final re-run of " + c["what"], envspec, c["env"], c["compiled"], c["q"], c["doc"], c["entry"], c["form"], False, remember=False)
            self.events.append(["recheck", ev])
            self.stats["final_rechecks"] += 1
        # results handed out earlier must still be what they were
        mutated_docs = {o for o in getattr(self, "_mutated_docs", set())}
        for what, nodes, canon, did in self.kept_results:
            if did in mutated_docs:
                continue  # the caller changed the document itself; node values alias it by design
            try:
                now = [world.canon_node(n) for n in nodes]
            except Exception as exc:  # noqa: BLE001
                now = [["unreadable", type(exc).__name__]]
            self.stats["kept_results_rechecked"] += 1
            if now != canon:
                self._violate("earlier-result-changed", f"the nodes returned by {what} were changed by later operations: {_brief(canon)} -> {_brief(now)}")
        # drain what is still live (each must still deliver its solitary sequence)
        for iid, rec in list(self.iters.items()):
            if rec["state"] == "live":
                self.events.append(["drain", self.op_iter_next({"it": iid, "n": 10_000})])
                self.stats["iters_drained_at_end"] += 1
        self.check_docs()


def _walk_containers(v: Any, loc: tuple = ()):
    if isinstance(v, (list, dict)):
        yield loc, v
        for k, c in (v.items() if isinstance(v, dict) else enumerate(v)):
            yield from _walk_containers(c, loc + (k,))


def _brief(nodes: List[Any], n: int = 6) -> str:
    locs = [x[0] for x in nodes[:n]]
    return f"{locs}{'...' if len(nodes) > n else ''}"


def run_history(history: Dict[str, Any]) -> Machine:
    m = Machine(history.get("knobs"))
    try:
        for op in history["ops"]:
            m.step(op)
        m.final_recheck()
    finally:
        m.close()
    return m

"""The pristine solitary run: the oracle of C14 and C16.

Each worker process, immediately after importing the library and before using
it, forks a *zygote* that holds import-time state only.  A golden request is a
JSON spec (environment spec, registered-function specs, query text, document
spec, entry point); the zygote forks a grandchild per request, which builds the
environment and document from the spec, performs the one call to completion and
returns the canonical outcome over a pipe, then exits.  Results are memoised in
the worker by spec.

The golden call goes through the *same entry point* as the simulated op, so a
tree in which e.g. find_one is consistently wrong (a C15 defect) cannot raise an
alarm here.
"""

from __future__ import annotations

import hashlib
import json
import os
import signal
import struct
import threading
import traceback
from typing import Any
from typing import Dict
from typing import Optional

from . import world


class GoldenError(Exception):
    pass


_REQ_W: Optional[int] = None
_RES_R: Optional[int] = None
_ZPID: Optional[int] = None
_PIPE_LOCK = threading.Lock()
_CACHE: Dict[str, Any] = {}
_NEW: Dict[str, Any] = {}
STATS = {"requests": 0, "forks": 0}


def _write_msg(fd: int, data: bytes) -> None:
    buf = struct.pack("<I", len(data)) + data
    while buf:
        n = os.write(fd, buf)
        buf = buf[n:]


def _read_exact(fd: int, n: int) -> bytes:
    out = b""
    while len(out) < n:
        b = os.read(fd, n - len(out))
        if not b:
            raise EOFError
        out += b
    return out


def _read_msg(fd: int) -> bytes:
    (n,) = struct.unpack("<I", _read_exact(fd, 4))
    return _read_exact(fd, n)


def _zygote_loop(req_r: int, res_w: int) -> None:
    while True:
        try:
            raw = _read_msg(req_r)
        except EOFError:
            os._exit(0)
        pid = os.fork()
        if pid == 0:
            try:
                # SIGALRM, not faulthandler: a process forked while a
                # dump_traceback_later watchdog was armed deadlocks on re-arming
                signal.alarm(60)
                spec = json.loads(raw)
                out = {"ok": True, "result": world.solitary(spec), "echo": hashlib.sha256(raw).hexdigest()[:16]}
            except BaseException as exc:  # noqa: BLE001
                out = {"ok": False, "error": "".join(traceback.format_exception(exc))[-2000:]}
            try:
                _write_msg(res_w, json.dumps(out).encode())
            finally:
                os._exit(0)
        _, status = os.waitpid(pid, 0)
        if status != 0:
            _write_msg(res_w, json.dumps({"ok": False, "error": f"golden child died with status {status}"}).encode())


def start() -> None:
    """Fork the zygote.  Must be called before the process runs any library code."""
    global _REQ_W, _RES_R, _ZPID
    if _ZPID is not None and _ZPID_OWNER == os.getpid():
        return
    req_r, req_w = os.pipe()
    res_r, res_w = os.pipe()
    pid = os.fork()
    if pid == 0:
        os.close(req_w)
        os.close(res_r)
        # hold nothing but stdio and the two pipes (an inherited pipe end would
        # keep some reader from ever seeing EOF)
        for fd in range(3, 256):
            if fd not in (req_r, res_w):
                try:
                    os.close(fd)
                except OSError:
                    pass
        signal.signal(signal.SIGALRM, signal.SIG_DFL)
        try:
            _zygote_loop(req_r, res_w)
        finally:
            os._exit(0)
    os.close(req_r)
    os.close(res_w)
    _REQ_W, _RES_R, _ZPID = req_w, res_r, pid
    _set_owner()
    _CACHE.clear()


_ZPID_OWNER = -1


def _set_owner() -> None:
    global _ZPID_OWNER
    _ZPID_OWNER = os.getpid()


def ask(spec: Dict[str, Any]) -> Any:
    """Canonical outcome of the solitary run of *spec* in a pristine process."""
    key = json.dumps(spec)  # member order is part of a document: never sort
    hit = _CACHE.get(key)
    if hit is not None:
        return hit
    if _ZPID is None:
        raise GoldenError("golden zygote not started in this process (or its parent)")
    STATS["requests"] += 1
    assert _REQ_W is not None and _RES_R is not None
    with _PIPE_LOCK:  # one request/response at a time, whatever thread asks
        _write_msg(_REQ_W, key.encode())
        want = hashlib.sha256(key.encode()).hexdigest()[:16]
        # (the pipe is shared with earlier run children of this worker: one killed by its watchdog
        # between request and response leaves its answer behind; the zygote answers in order, so
        # answers to other requests ahead of ours are dropped)
        for _ in range(16):
            try:
                res = json.loads(_read_msg(_RES_R))
            except EOFError as exc:
                raise GoldenError("golden zygote died") from exc
            if not res["ok"] or res.get("echo") == want:
                break
            STATS["resync"] = STATS.get("resync", 0) + 1
    if not res["ok"]:
        raise GoldenError("golden run failed in the harness:\n" + res["error"])
    if res.get("echo") != hashlib.sha256(key.encode()).hexdigest()[:16]:
        raise GoldenError("golden response does not belong to the request (pipe out of step)")
    if len(_CACHE) > 100_000:
        _CACHE.clear()
    _CACHE[key] = res["result"]
    _NEW[key] = res["result"]
    return res["result"]


def export_new() -> Dict[str, Any]:
    """Cache entries added in this process since it was forked (handed back to the worker)."""
    return dict(_NEW)


def import_new(entries: Dict[str, Any]) -> None:
    if len(_CACHE) > 100_000:
        _CACHE.clear()
    _CACHE.update(entries)

"""Batch driver shared by all checks.

A check module provides

    PROPERTY: str                       e.g. "C17"
    LEVEL: str                          evidence level category
    RULE: str                           how runs are generated / what is non-trivial
    ASSUMPTIONS: list[str]
    COMPONENTS: dict                    which components ran real code / stubs
    def plan(tier) -> dict              {"runs": N, "chunk": c, "budget_s": s, ...}
    def worker_init() -> None           (optional) once per worker process
    def run_one(seed:int, tier:str, index:int) -> dict     one simulated run
    def replay(payload:dict) -> list[dict]                 violations of a recorded run
    def shrink_candidates(payload) -> iterable[dict]       (optional) smaller payloads
    def finish(tier, seed, merged) -> dict                 (optional) extra evidence / violations

``run_one`` returns {"digest": str, "sig": str|None (distinct non-trivial
signature), "stats": {counter: int}, "steps": int, "violations": [v...],
"sample": obj|None}; a violation is {"class": str, "signature": str,
"what": str, "payload": {...}}.

Exit status: 0 nothing but known findings; 1 at least one VIOLATION line;
3 harness error (never 0, never a VIOLATION line).
"""

from __future__ import annotations

import faulthandler
import importlib
import json
import multiprocessing
import os
import signal
import sys
import time
import traceback
from collections import Counter
from concurrent.futures import FIRST_COMPLETED
from concurrent.futures import ProcessPoolExecutor
from concurrent.futures import wait
from typing import Any
from typing import Dict
from typing import List
from typing import Optional
from typing import Tuple

from . import seeds

VERIF = os.path.dirname(os.path.dirname(os.path.abspath(__file__)))
# evidence committed under /verif/evidence comes from runs against /repo itself; runs against a
# scratch tree (self-tests with VERIF_REPO) write theirs under scratch/ (git-ignored)
_AGAINST_REPO = os.path.realpath(os.environ.get("VERIF_REPO", "/repo")) == os.path.realpath("/repo")
EVIDENCE_DIR = os.path.join(VERIF, "evidence") if _AGAINST_REPO else os.path.join(VERIF, "scratch", "evidence")
REPLAY_DIR = os.path.join(VERIF, "replays")
KNOWN_FILE = os.path.join(VERIF, "known_findings.json")

EXIT_OK, EXIT_VIOLATION, EXIT_HARNESS = 0, 1, 3


class HarnessError(Exception):
    pass


def load_known() -> Dict[str, Dict[str, str]]:
    """property -> {signature -> description} of recorded (unrepaired) findings."""
    out: Dict[str, Dict[str, str]] = {}
    try:
        with open(KNOWN_FILE) as fd:
            data = json.load(fd)
    except FileNotFoundError:
        return out
    for f in data.get("findings", []):
        out.setdefault(f["property"], {})[f["signature"]] = f.get("description", "")
    return out


# --------------------------------------------------------------------------
# worker side
# --------------------------------------------------------------------------
_MOD = None


def _worker_init(modname: str) -> None:
    global _MOD
    signal.signal(signal.SIGINT, signal.SIG_IGN)
    _MOD = importlib.import_module(modname)
    if hasattr(_MOD, "worker_init"):
        _MOD.worker_init()


def _in_fork(fn, hard_s: float):
    """Run fn() in a forked child of this (never-used) worker: every chunk --
    or, for checks with ISOLATE = "run", every run -- starts from import-time
    state only, so results cannot depend on what the worker did before, even on
    a tree that keeps hidden process-global state."""
    import pickle

    r, w = os.pipe()
    pid = os.fork()
    if pid == 0:
        code = 0
        try:
            os.close(r)
            signal.signal(signal.SIGALRM, signal.SIG_DFL)
            signal.alarm(int(hard_s) + 5)
            try:
                data = pickle.dumps(("ok", fn()))
            except BaseException as exc:  # noqa: BLE001
                data = pickle.dumps(("err", "".join(traceback.format_exception(exc))))
            with os.fdopen(w, "wb") as fd:
                fd.write(data)
        except BaseException:  # noqa: BLE001
            code = 1
        finally:
            os._exit(code)
    os.close(w)
    chunks = []
    with os.fdopen(r, "rb") as fd:
        while True:
            b = fd.read(1 << 16)
            if not b:
                break
            chunks.append(b)
    _, status = os.waitpid(pid, 0)
    raw = b"".join(chunks)
    if not raw:
        raise HarnessError(f"run child died (wait status {status})")
    kind, val = pickle.loads(raw)
    if kind == "err":
        raise HarnessError("run child raised:\n" + val)
    return val


def _run_chunk(modname: str, tier: str, base: int, start: int, end: int, hard_s: float, keep_digests: bool) -> dict:
    mod = _MOD
    assert mod is not None and mod.__name__ == modname
    # watchdog for the chunk as a whole.  Where every run has its own fork (and its own alarm) the
    # chunk may legitimately take many times one run's limit on a loaded machine: allow for it
    per_run = getattr(mod, "ISOLATE", "chunk") == "run"
    faulthandler.dump_traceback_later(max(hard_s + 30, (end - start) * 30 if per_run else 0), exit=True)
    try:
        def one(i: int) -> dict:
            s = seeds.run_seed(base, mod.PROPERTY, tier, i)
            r = mod.run_one(s, tier, i)
            r["_seed"] = s
            if hasattr(mod, "export_state"):
                r["_state"] = mod.export_state()
            return r

        if getattr(mod, "ISOLATE", "chunk") == "run":
            runs = []
            for i in range(start, end):
                r = _in_fork(lambda i=i: one(i), hard_s)
                if "_state" in r:
                    mod.import_state(r.pop("_state"))
                runs.append(r)
        else:
            runs = _in_fork(lambda: [one(i) for i in range(start, end)], hard_s)
        stats: Counter = Counter()
        sigs = set()
        digests: List[str] = []
        violations: List[dict] = []
        samples: List[Any] = []
        steps = 0
        for i, r in zip(range(start, end), runs):
            s = r["_seed"]
            digests.append(r["digest"])
            if r.get("sig") is not None:
                sigs.add(r["sig"])
            for sg in r.get("sigs") or ():
                sigs.add(sg)
            for k, v in r.get("stats", {}).items():
                stats[k] += v
            steps += r.get("steps", 0)
            for v in r.get("violations", []):
                v = dict(v)
                v["run_index"] = i
                v["run_seed"] = s
                v["chunk_start"] = start
                if len(violations) < 200:
                    violations.append(v)
                stats["violations_raw"] += 1
            if r.get("sample") is not None and len(samples) < 2:
                samples.append(r["sample"])
        return {
            "start": start,
            "end": end,
            "stats": dict(stats),
            "sigs": sorted(sigs),
            "digest": seeds.digest(digests),
            "digests": digests if keep_digests else None,
            "violations": violations,
            "samples": samples,
            "steps": steps,
        }
    finally:
        faulthandler.cancel_dump_traceback_later()


def _kill_pool(ex: ProcessPoolExecutor) -> None:
    procs = list(getattr(ex, "_processes", {}).values())
    for p in procs:
        try:
            os.kill(p.pid, signal.SIGKILL)
        except Exception:  # noqa: BLE001
            pass
    ex.shutdown(wait=False, cancel_futures=True)


# --------------------------------------------------------------------------
# fork-isolated replay (pristine: the driver process never runs library code)
# --------------------------------------------------------------------------
def _short(text: str, limit: int = 1200) -> str:
    """The full text is in the replay file; the console gets the two ends."""
    text = text.encode("utf-8", "backslashreplace").decode("utf-8")  # (lone surrogates are printable this way)
    if len(text) <= limit:
        return text
    return text[: limit // 2] + f" ...[{len(text) - limit} characters]... " + text[-limit // 2 :]


class _Replay:
    """One mod.replay(payload) running in a forked child (own session)."""

    def __init__(self, modname: str, payload: dict, timeout_s: float) -> None:
        import struct

        self.r, w = os.pipe()
        self.raw = b""
        self.want: Optional[int] = None
        self.eof = False
        self.deadline = time.monotonic() + timeout_s + 5
        self.pid = os.fork()
        if self.pid == 0:
            try:
                os.close(self.r)
                os.setsid()
                mod = importlib.import_module(modname)
                if hasattr(mod, "worker_init"):
                    mod.worker_init()  # forks the golden zygote: before any watchdog is armed
                signal.signal(signal.SIGALRM, signal.SIG_DFL)
                signal.alarm(int(timeout_s) + 1)
                out = replay_payload(mod, payload)
                data = json.dumps({"ok": True, "violations": out}, default=repr).encode()
            except BaseException as exc:  # noqa: BLE001
                data = json.dumps({"ok": False, "error": "".join(traceback.format_exception(exc))}).encode()
            try:
                signal.alarm(0)
                buf = struct.pack("<I", len(data)) + data
                while buf:
                    n = os.write(w, buf)
                    buf = buf[n:]
            finally:
                os._exit(0)
        os.close(w)

    @property
    def done(self) -> bool:
        return self.eof or (self.want is not None and len(self.raw) >= 4 + self.want) or time.monotonic() >= self.deadline

    def feed(self) -> None:
        import struct

        b = os.read(self.r, 1 << 16)
        if not b:
            self.eof = True
            return
        self.raw += b
        if self.want is None and len(self.raw) >= 4:
            (self.want,) = struct.unpack("<I", self.raw[:4])

    def reap(self) -> None:
        try:
            os.close(self.r)
        except OSError:
            pass
        try:
            os.killpg(self.pid, signal.SIGKILL)  # the child, its zygote and any golden grandchild
        except (ProcessLookupError, PermissionError):
            pass
        try:
            os.waitpid(self.pid, 0)
        except ChildProcessError:
            pass

    def result(self) -> List[dict]:
        """Call after done and reap()."""
        if self.want is None or len(self.raw) < 4 + self.want:
            raise HarnessError("replay child died or timed out")
        res = json.loads(self.raw[4 : 4 + self.want])
        if not res["ok"]:
            raise HarnessError("replay child raised:\n" + res["error"])
        return res["violations"]


def _pump(live: List["_Replay"], head: "_Replay") -> None:
    """Read from every live child until ``head`` has finished (children never block on a full pipe)."""
    import select

    while not head.done:
        fds = {x.r: x for x in live if not x.done}
        if not fds:
            break
        left = max(0.0, min(x.deadline for x in fds.values()) - time.monotonic())
        ready, _, _ = select.select(list(fds), [], [], min(left, 1.0))
        for fd in ready:
            fds[fd].feed()


def replay_isolated(modname: str, payload: dict, timeout_s: float = 30.0) -> List[dict]:
    """Run mod.replay(payload) in a forked child (own session); returns its violations."""
    rp = _Replay(modname, payload, timeout_s)
    try:
        _pump([rp], rp)
    finally:
        rp.reap()
    return rp.result()


def replay_payload(mod: Any, payload: dict) -> List[dict]:
    """mod.replay(payload), or -- for a violation that needs the runs before it in
    its chunk (hidden cross-run state in the tree under test) -- re-execution of
    the chunk from its start up to the violating run, in this fresh process."""
    cr = payload.get("chunk_replay") if isinstance(payload, dict) else None
    if cr is None:
        return mod.replay(payload)
    out: List[dict] = []
    for i in range(cr["start"], cr["upto"] + 1):
        r = mod.run_one(seeds.run_seed(cr["base"], mod.PROPERTY, cr["tier"], i), cr["tier"], i)
        if i == cr["upto"]:
            out = [dict(v, payload=payload) for v in r.get("violations", [])]
    return out


def minimise(modname: str, mod: Any, viol: dict, budget_s: float) -> dict:
    """Greedy shrink: accept a candidate iff an isolated replay shows the same class+signature.

    Candidates are tried in the order the module proposes them and the first one (in that
    order) that still fails is taken, exactly as a sequential search would; several are
    *evaluated* at once, each in its own forked process, because most candidates do not fail.
    """
    if not hasattr(mod, "shrink_candidates") or "chunk_replay" in viol["payload"]:
        return viol
    width = max(1, min(12, int(os.environ.get("VERIF_WORKERS", os.cpu_count() or 1)) - 2))
    t0 = time.monotonic()
    best = viol
    improved = True
    tried = 0
    accepted = 0
    while improved and time.monotonic() - t0 < budget_s:
        improved = False
        cands = iter(mod.shrink_candidates(best["payload"]))
        window: List[Tuple[dict, _Replay]] = []
        exhausted = False
        try:
            while True:
                while not exhausted and len(window) < width and time.monotonic() - t0 < budget_s:
                    try:
                        cand = next(cands)
                    except StopIteration:
                        exhausted = True
                        break
                    window.append((cand, _Replay(modname, cand, 20.0)))
                if not window:
                    break
                cand, head = window.pop(0)
                tried += 1
                _pump([head] + [w for _c, w in window], head)
                head.reap()
                try:
                    vs = head.result()
                except HarnessError:
                    continue
                hit = [v for v in vs if v["class"] == best["class"] and v["signature"] == best["signature"]]
                if hit:
                    nv = dict(hit[0])
                    nv["run_index"] = best.get("run_index")
                    nv["run_seed"] = best.get("run_seed")
                    best = nv
                    improved = True
                    accepted += 1
                    break
        finally:
            for _c, w in window:
                w.reap()
    best = dict(best)
    best["minimise_candidates_tried"] = tried
    best["minimise_steps_accepted"] = accepted
    return best


# --------------------------------------------------------------------------
# main batch loop
# --------------------------------------------------------------------------
def run_check(modname: str, tier: str) -> int:
    t_start = time.monotonic()
    mod = importlib.import_module(modname)
    prop = mod.PROPERTY
    base = seeds.base_seed()
    print(f"VERIF_SEED={base} property={prop} tier={tier}", flush=True)
    plan = mod.plan(tier)
    if os.environ.get("VERIF_RUNS"):
        plan["runs"] = int(os.environ["VERIF_RUNS"])
    budget_s = float(os.environ.get("VERIF_BUDGET_S", plan.get("budget_s", 60)))
    workers = int(os.environ.get("VERIF_WORKERS", min(16, os.cpu_count() or 1)))
    n_runs, chunk = plan["runs"], plan["chunk"]
    hard_s = plan.get("chunk_hard_s", 300)
    known = load_known().get(prop, {})

    os.makedirs(EVIDENCE_DIR, exist_ok=True)
    os.makedirs(REPLAY_DIR, exist_ok=True)

    merged: Dict[str, Any] = {
        "stats": Counter(),
        "sigs": set(),
        "violations": [],
        "samples": [],
        "steps": 0,
        "runs": 0,
        "chunk_digests": {},
    }
    chunks = [(s, min(s + chunk, n_runs)) for s in range(0, n_runs, chunk)]
    # 2% in-batch determinism re-run sample (chunks, run again on another worker)
    recheck_every = max(1, len(chunks) // max(1, min(len(chunks), max(2, len(chunks) // 50))))
    ctx = multiprocessing.get_context("fork")
    ex = ProcessPoolExecutor(max_workers=workers, mp_context=ctx, initializer=_worker_init, initargs=(modname,))
    harness_error = None
    truncated = False
    try:
        pending = {}
        mismatches: List[str] = []
        it = iter(enumerate(chunks))
        results: Dict[int, dict] = {}

        def submit_more() -> None:
            nonlocal truncated
            while len(pending) < 2 * workers:
                if time.monotonic() - t_start > budget_s:
                    truncated = True
                    return
                try:
                    ci, (s, e) = next(it)
                except StopIteration:
                    return
                fut = ex.submit(_run_chunk, modname, tier, base, s, e, hard_s, False)
                pending[fut] = ("main", ci)

        submit_more()
        while pending:
            done, _ = wait(list(pending), timeout=hard_s + 30, return_when=FIRST_COMPLETED)
            if not done:
                raise HarnessError("no chunk completed within the hard time limit")
            for fut in done:
                kind, ci = pending.pop(fut)
                res = fut.result()
                if kind == "main":
                    results[ci] = res
                    if ci % recheck_every == 0:
                        s, e = chunks[ci]
                        f2 = ex.submit(_run_chunk, modname, tier, base, s, e, hard_s, False)
                        pending[f2] = ("recheck", ci)
                else:
                    merged["stats"]["determinism_rechecked_runs"] += res["end"] - res["start"]
                    if res["digest"] != results[ci]["digest"]:
                        mismatches.append(f"chunk {chunks[ci]} digests {results[ci]['digest']} vs {res['digest']}")
            submit_more()
        for ci in sorted(results):
            res = results[ci]
            merged["runs"] += res["end"] - res["start"]
            merged["stats"].update(res["stats"])
            merged["sigs"].update(res["sigs"])
            merged["violations"].extend(res["violations"])
            merged["steps"] += res["steps"]
            if len(merged["samples"]) < 4:
                merged["samples"].extend(res["samples"][: 4 - len(merged["samples"])])
            merged["chunk_digests"][ci] = res["digest"]
    except HarnessError as exc:
        harness_error = str(exc)
    except Exception as exc:  # noqa: BLE001  (BrokenProcessPool, worker exceptions)
        harness_error = "".join(traceback.format_exception(exc))
    finally:
        if harness_error is not None:
            _kill_pool(ex)
        else:
            ex.shutdown(wait=True)

    if harness_error is not None:
        print(f"HARNESS-ERROR property={prop}: {harness_error}", flush=True)
        return EXIT_HARNESS
    if mismatches and not merged["violations"]:
        # every chunk starts from a pristine fork, so this is a defect of the harness
        print(f"HARNESS-ERROR property={prop}: determinism mismatch: {mismatches[0]}", flush=True)
        return EXIT_HARNESS
    if mismatches:
        print(f"note: {len(mismatches)} re-run chunk(s) gave different digests; violations were found, so the tree under test is the suspect", flush=True)

    extra: Dict[str, Any] = {}
    if hasattr(mod, "finish"):
        try:
            extra = mod.finish(tier, base, merged) or {}
        except HarnessError as exc:
            if not merged["violations"]:
                print(f"HARNESS-ERROR property={prop}: {exc}", flush=True)
                return EXIT_HARNESS
            print(f"note: {exc}", flush=True)
            extra = {}
        merged["violations"].extend(extra.pop("violations", []))

    # ---- classify violations -------------------------------------------
    by_sig: Dict[str, List[dict]] = {}
    for v in merged["violations"]:
        by_sig.setdefault(v["signature"], []).append(v)
    known_hit = sorted(s for s in by_sig if s in known)
    unknown = sorted(s for s in by_sig if s not in known)
    for s in known_hit:
        print(f"KNOWN-FINDING: property={prop} {s} :: {known[s]} (seen {len(by_sig[s])}x this run)", flush=True)
    if os.environ.get("VERIF_LIST_SIGS"):
        for s_ in sorted(by_sig):
            print(f"SIG {len(by_sig[s_]):6d} {s_} :: {_short(by_sig[s_][0].get('what', ''), 300)}", flush=True)
    n_viol = 0
    min_budget = float(os.environ.get("VERIF_MINIMISE_S", plan.get("minimise_s", 45)))
    for s in unknown[:5]:
        v = min(by_sig[s], key=lambda x: (x.get("run_index", 1 << 60)))
        # write the unminimised replay first so a crash in the minimiser loses nothing
        path = os.path.join(REPLAY_DIR, f"{prop}-{base}-{v.get('run_index', 'x')}-{n_viol}.json")
        _write_replay(path, modname, prop, v, minimised=False)
        try:
            # confirm in isolation, then minimise
            confirm = replay_isolated(modname, v["payload"])
            if not any(c["signature"] == v["signature"] for c in confirm):
                # needs the runs before it in its chunk: hidden cross-run state
                cr = {"chunk_replay": {"tier": tier, "base": base, "start": v["chunk_start"], "upto": v["run_index"]}}
                confirm = replay_isolated(modname, cr, timeout_s=hard_s)
                if not any(c["signature"] == v["signature"] for c in confirm):
                    print(f"HARNESS-ERROR property={prop}: violation {s} reproduces neither alone nor with its chunk", flush=True)
                    return EXIT_HARNESS
                print("  note: reproduces only after the earlier runs of its chunk (state survives between runs); replay file re-executes the chunk", flush=True)
                v = dict(v, payload=cr)
                _write_replay(path, modname, prop, v, minimised=False)
            mv = minimise(modname, mod, v, min_budget / max(1, min(5, len(unknown))))
            _write_replay(path, modname, prop, mv, minimised=True)
        except HarnessError as exc:
            print(f"note: minimisation failed ({exc}); unminimised replay kept", flush=True)
        print(f"VIOLATION property={prop} replay={path}", flush=True)
        print(f"  signature: {s}\n  what: {_short(v.get('what', ''))}", flush=True)
        n_viol += 1
    if len(unknown) > 5:
        print(f"  ... and {len(unknown) - 5} further distinct violation signatures", flush=True)

    wall = time.monotonic() - t_start
    stats = dict(sorted(merged["stats"].items()))
    cov = {
        "evaluations": merged["runs"],
        "distinct_nontrivial": len(merged["sigs"]),
        "rule": mod.RULE,
        "samples": merged["samples"][:4] or ["(no sample recorded)"],
        "planned_runs": n_runs,
        "budget_truncated": truncated,
        "workers": workers,
        "runs_per_hour": int(merged["runs"] / wall * 3600) if wall > 0 else 0,
        "simulated_time_steps": merged["steps"],
        "simulated_time_unit": getattr(mod, "STEP_UNIT", "logical steps (see rule)"),
        "counters": stats,
        "components": getattr(mod, "COMPONENTS", {}),
        "known_findings_seen": known_hit,
        "batch_digest": seeds.digest([merged["chunk_digests"][k] for k in sorted(merged["chunk_digests"])]),
    }
    cov.update(extra)
    ev = {
        "property_id": prop,
        "tier": tier,
        "seed": base,
        "level": mod.LEVEL,
        "coverage": cov,
        "assumptions": list(getattr(mod, "ASSUMPTIONS", [])),
        "wall_s": round(wall, 2),
        "violations": n_viol,
    }
    tmp = os.path.join(EVIDENCE_DIR, f".{prop}.json.tmp")
    with open(tmp, "w") as fd:
        json.dump(ev, fd, indent=1, default=repr)
    os.replace(tmp, os.path.join(EVIDENCE_DIR, f"{prop}.json"))
    print(
        f"property={prop} tier={tier} runs={merged['runs']} distinct_nontrivial={len(merged['sigs'])} "
        f"steps={merged['steps']} wall={wall:.1f}s violations={n_viol} known={len(known_hit)}",
        flush=True,
    )
    return EXIT_VIOLATION if n_viol else EXIT_OK


def _write_replay(path: str, modname: str, prop: str, v: dict, *, minimised: bool) -> None:
    doc = {
        "property": prop,
        "module": modname,
        "class": v["class"],
        "signature": v["signature"],
        "what": v.get("what", ""),
        "run_index": v.get("run_index"),
        "run_seed": v.get("run_seed"),
        "minimised": minimised,
        "minimise_candidates_tried": v.get("minimise_candidates_tried", 0),
        "payload": v["payload"],
    }
    with open(path, "w") as fd:
        json.dump(doc, fd, indent=1, default=repr)


def run_replay(path: str) -> int:
    with open(path) as fd:
        doc = json.load(fd)
    modname, prop = doc["module"], doc["property"]
    print(f"replaying {path}: property={prop} signature={doc['signature']}", flush=True)
    mod = importlib.import_module(modname)
    if hasattr(mod, "worker_init"):
        mod.worker_init()
    vs = replay_payload(mod, doc["payload"])
    same = [v for v in vs if v["signature"] == doc["signature"]]
    for v in vs:
        print(f"  reproduced: class={v['class']} signature={v['signature']}\n    {_short(v.get('what', ''))}")
    if same:
        print(f"VIOLATION property={prop} replay={path}")
        return EXIT_VIOLATION
    if vs:
        print(f"VIOLATION property={prop} replay={path}  (different signature than recorded)")
        return EXIT_VIOLATION
    print("not reproduced: the recorded run shows no violation on this tree")
    return EXIT_OK

"""The I/O seam for the CLI: an in-memory file system behind ``argparse.open``,
simulated stdio with seeded short reads, argv and exit-status capture.

``argparse.FileType.__call__`` resolves the *module-global name* ``open``;
setting ``argparse.open`` shadows the builtin for argparse only.  ``sys.stdin``,
``sys.stdout``, ``sys.stderr`` and ``sys.argv`` are plain attributes.
"""

from __future__ import annotations

import argparse
import builtins
import io
import os
import sys
import traceback
from typing import Any
from typing import Dict
from typing import List
from typing import Optional


class ShortReadRaw(io.RawIOBase):
    """A raw byte stream that delivers at most ``chunks[i]`` bytes per read."""

    def __init__(self, data: bytes, chunks: List[int], name: str = "<stdin>") -> None:
        super().__init__()
        self.name = name  # (as real raw files have; the buffered and text layers above pass it on)
        self.data = data
        self.pos = 0
        self.chunks = chunks or [1 << 30]
        self.i = 0
        self.reads = 0
        self.split_multibyte = 0

    def readable(self) -> bool:
        return True

    def readinto(self, b: Any) -> int:
        if self.pos >= len(self.data):
            return 0
        n = min(len(b), self.chunks[self.i % len(self.chunks)], len(self.data) - self.pos)
        n = max(1, n)
        self.i += 1
        self.reads += 1
        end = self.pos + n
        if end < len(self.data) and (self.data[end] & 0xC0) == 0x80:
            self.split_multibyte += 1
        b[:n] = self.data[self.pos : end]
        self.pos = end
        return n


class CapturedText(io.StringIO):
    """An output text file whose content survives close().  Like a real text stream it has
    an encoding (the locale's, or PYTHONIOENCODING's) and refuses what that cannot encode."""

    def __init__(self, encoding: str = "utf-8", name: str = "<stdout>") -> None:
        super().__init__()
        self.name = name
        self.final: Optional[str] = None
        self.closed_by_cli = False
        self._enc = encoding
        self._errors = "strict"
        self.buffer = _BinaryView(self)

    @property
    def encoding(self) -> str:  # type: ignore[override]
        return self._enc

    @property
    def errors(self) -> str:  # type: ignore[override]
        return self._errors

    def reconfigure(self, *, encoding: Optional[str] = None, errors: Optional[str] = None, **_kw: Any) -> None:
        """As io.TextIOWrapper.reconfigure: a tool may fix its own output encoding."""
        if encoding is not None:
            self._enc = encoding
        if errors is not None:
            self._errors = errors

    def write(self, text: str) -> int:
        # raises UnicodeEncodeError exactly where a real stream would; what an error handler
        # substitutes is what ends up in the file
        data = text.encode(self._enc, self._errors)
        return super().write(text if self._errors == "strict" else data.decode(self._enc, "replace"))

    def _write_bytes(self, data: bytes) -> int:
        super().write(data.decode("utf-8", "replace"))
        return len(data)

    def close(self) -> None:
        self.final = self.getvalue()
        self.closed_by_cli = True
        super().close()

    def content(self) -> str:
        return self.final if self.final is not None else self.getvalue()


class _BinaryView:
    """``stream.buffer`` of a captured text stream: bytes written here bypass the encoder."""

    def __init__(self, owner: "CapturedText") -> None:
        self._owner = owner

    @property
    def name(self) -> str:
        return self._owner.name

    @property
    def closed(self) -> bool:
        return self._owner.closed

    def close(self) -> None:
        self._owner.close()

    def write(self, data: Any) -> int:
        return self._owner._write_bytes(bytes(data))

    def flush(self) -> None:
        pass

    def writable(self) -> bool:
        return True


class FakeFS:
    def __init__(self, files: Dict[str, bytes], chunks: List[int], out_encoding: str = "utf-8", virtual: Optional[List[str]] = None) -> None:
        self.files = dict(files)
        self.chunks = chunks
        self.out_encoding = out_encoding
        self.outputs: Dict[str, CapturedText] = {}
        self.raws: List[ShortReadRaw] = []
        # the names that live in this file system (whether or not a file exists there yet);
        # when ``virtual`` is given, anything else is the real file system's business
        self.virtual = None if virtual is None else set(virtual) | set(files)
        self.real_open = io.open

    def open(self, name: Any, mode: str = "r", buffering: int = -1, encoding: Optional[str] = None, errors: Optional[str] = None, *a: Any, **k: Any) -> Any:
        if not isinstance(name, int):
            name = os.fspath(name)
        if self.virtual is not None and name not in self.virtual:
            return self.real_open(name, mode, buffering, encoding, errors, *a, **k)
        if "w" in mode or "a" in mode or "+" in mode or "x" in mode:
            out = CapturedText(encoding or self.out_encoding, name)
            if errors:
                out.reconfigure(errors=errors)
            if "b" in mode:
                out = out.buffer  # type: ignore[assignment]
                self.outputs[name] = out._owner  # type: ignore[attr-defined]
                old = self.files.get(name)
                if old is not None and "w" not in mode:
                    if "x" in mode:
                        raise FileExistsError(17, "File exists", name)
                    out.write(old)
                return out
            old = self.files.get(name)
            if old is not None and "w" not in mode:
                # a pre-existing file opened without truncation keeps its content
                if "x" in mode:
                    raise FileExistsError(17, "File exists", name)
                out.write(old.decode("utf-8", "replace"))
                if "a" not in mode:
                    out.seek(0)
            self.outputs[name] = out
            return out
        if name not in self.files:
            raise FileNotFoundError(2, "No such file or directory", name)
        raw = ShortReadRaw(self.files[name], self.chunks, name)
        self.raws.append(raw)
        buf = io.BufferedReader(raw, buffer_size=16)
        if "b" in mode:
            return buf
        return io.TextIOWrapper(buf, encoding=encoding or "utf-8", errors=errors or "strict")


def run_cli(
    main: Any,
    argv: List[str],
    files: Dict[str, bytes],
    stdin_bytes: bytes,
    *,
    stdin_errors: str = "strict",
    chunks: Optional[List[int]] = None,
    tty: bool = False,
    environ: Optional[Dict[str, Optional[str]]] = None,
    module: Any = None,
    out_encoding: str = "utf-8",
    virtual: Optional[List[str]] = None,
) -> Dict[str, Any]:
    """Run ``main()`` in-process on the fake file system / stdio.

    Returns status, stdout, stderr, output files, whether an exception escaped
    (= traceback + status 1 in a real process) and its class.
    """
    fs = FakeFS(files, chunks or [], out_encoding, virtual)
    raw_in = ShortReadRaw(stdin_bytes, chunks or [])
    stdin = io.TextIOWrapper(io.BufferedReader(raw_in, buffer_size=16), encoding="utf-8", errors=stdin_errors)
    stdout, stderr = CapturedText(out_encoding, "<stdout>"), CapturedText("utf-8", "<stderr>")
    if tty:
        # the tool may ask whether it talks to a terminal
        stdout.isatty = lambda: True  # type: ignore[method-assign]
        stderr.isatty = lambda: True  # type: ignore[method-assign]
    saved = (sys.stdin, sys.stdout, sys.stderr, sys.argv)
    saved_builtin_open, saved_io_open = builtins.open, io.open
    saved_env = {k: os.environ.get(k) for k in (environ or {})}
    mod_had_open = module is not None and "open" in vars(module)
    mod_saved_open = vars(module).get("open") if module is not None else None
    had_open = hasattr(argparse, "open")
    saved_open = getattr(argparse, "open", None)
    escaped = None
    tb_text = ""
    status: Any = 0
    try:
        sys.stdin, sys.stdout, sys.stderr = stdin, stdout, stderr
        sys.argv = ["jsonpath-rfc9535", *argv]
        argparse.open = fs.open  # type: ignore[attr-defined]
        if module is not None:
            module.open = fs.open  # an open() written in the CLI module itself sees the same file system
        if virtual is not None:
            # ... and so does every other way of opening a file by name (pathlib, codecs, helpers
            # in other modules): the virtual names are served here, all other names by the real open
            builtins.open = fs.open  # type: ignore[assignment]
            io.open = fs.open  # type: ignore[assignment]
        for k, v in (environ or {}).items():
            if v is None:
                os.environ.pop(k, None)
            else:
                os.environ[k] = v
        try:
            main()
        except SystemExit as exc:
            code = exc.code
            if code is None:
                status = 0
            elif isinstance(code, int):
                status = code
            else:
                stderr.write(str(code) + "\n")
                status = 1
        except BaseException as exc:  # noqa: BLE001
            escaped = exc
            status = 1
            tb_text = "".join(traceback.format_exception(exc))
    finally:
        builtins.open = saved_builtin_open
        io.open = saved_io_open  # type: ignore[assignment]
        sys.stdin, sys.stdout, sys.stderr, sys.argv = saved
        for k, v in saved_env.items():
            if v is None:
                os.environ.pop(k, None)
            else:
                os.environ[k] = v
        if module is not None:
            if mod_had_open:
                module.open = mod_saved_open
            else:
                try:
                    del module.open
                except AttributeError:
                    pass
        if had_open:
            argparse.open = saved_open  # type: ignore[attr-defined]
        else:
            try:
                del argparse.open  # type: ignore[attr-defined]
            except AttributeError:
                pass
    innermost = ""
    if escaped is not None:
        tb = traceback.extract_tb(escaped.__traceback__)
        for fr in reversed(tb):
            if "jsonpath_rfc9535" in fr.filename:
                innermost = f"{fr.filename.rsplit('/', 1)[-1]}:{fr.name}"
                break
    return {
        "status": status,
        "stdout": stdout.content(),
        "stderr": stderr.content(),
        # files written by the tool, and -- as they were -- the files it did not open for writing
        "outputs": {**{k: v.decode("utf-8", "replace") for k, v in fs.files.items()}, **{k: v.content() for k, v in fs.outputs.items()}},
        "escaped": type(escaped).__name__ if escaped is not None else None,
        "escaped_msg": (str(escaped)[:200] if escaped is not None else ""),
        "escaped_where": innermost,
        "traceback": tb_text,
        "reads": raw_in.reads + sum(r.reads for r in fs.raws),
        "split_multibyte": raw_in.split_multibyte + sum(r.split_multibyte for r in fs.raws),
    }

"""JSONPath query ASTs (JSON-able), rendering, generation and shrinking.

query  := {"segs": [seg...]}
seg    := {"k": "child"|"desc", "sels": [sel...], "sh": bool}     sh: shorthand (.name / .* / ..name)
sel    := {"t":"name","v":str} | {"t":"index","v":int} | {"t":"slice","a":int|None,"b":..,"c":..}
        | {"t":"wild"} | {"t":"filter","e":expr}
expr   := {"t":"cmp","op":str,"l":expr,"r":expr} | {"t":"and"|"or","l":expr,"r":expr}
        | {"t":"not","e":expr} | {"t":"paren","e":expr}
        | {"t":"rel","q":query} | {"t":"root","q":query}
        | {"t":"lit","v":scalar} | {"t":"call","name":str,"args":[expr...]}
"""

from __future__ import annotations

import json
import random
import re
from typing import Any
from typing import Dict
from typing import Iterator
from typing import List
from typing import Optional
from typing import Sequence
from typing import Tuple

from .docs import KEYS

IDENT = re.compile(r"^[a-zA-Z_][a-zA-Z0-9_]*$")

# name -> (arg types, return type); V value, L logical, N nodes
BUILTINS: Dict[str, Tuple[Tuple[str, ...], str]] = {
    "length": (("V",), "V"),
    "count": (("N",), "V"),
    "match": (("V", "V"), "L"),
    "search": (("V", "V"), "L"),
    "value": (("N",), "V"),
}

# (the last few mean different things under the two dialects of the `regex` package --
# doubled set operators inside a class -- and nothing special under I-Regexp)
PATTERNS = ("a", "a.*", "[ab]+", ".", "ab?c?", "x|a", "\\\\d", "(", "a{2}", "[^a]", "[a&&b]", "[a||b]", "[a~~b]", "[a-c&&b]x?")


def quote(s: str, dq: bool = False) -> str:
    out = []
    for ch in s:
        if ch == "\\":
            out.append("\\\\")
        elif ch == "\n":
            out.append("\\n")
        elif ch == "\t":
            out.append("\\t")
        elif ch == "\r":
            out.append("\\r")
        elif ord(ch) < 0x20:
            out.append("\\u%04x" % ord(ch))
        elif ch == "'" and not dq:
            out.append("\\'")
        elif ch == '"' and dq:
            out.append('\\"')
        else:
            out.append(ch)
    q = '"' if dq else "'"
    return q + "".join(out) + q


def render_sel(sel: Dict[str, Any]) -> str:
    t = sel["t"]
    if t == "name":
        return quote(sel["v"], sel.get("dq", False))
    if t == "index":
        return str(sel["v"])
    if t == "slice":
        a = "" if sel.get("a") is None else str(sel["a"])
        b = "" if sel.get("b") is None else str(sel["b"])
        if sel.get("c") is None:
            return f"{a}:{b}"
        return f"{a}:{b}:{sel['c']}"
    if t == "wild":
        return "*"
    if t == "filter":
        return "?" + render_expr(sel["e"])
    raise ValueError(t)


def render_seg(seg: Dict[str, Any]) -> str:
    dots = ".." if seg["k"] == "desc" else ""
    sels = seg["sels"]
    if seg.get("sh") and len(sels) == 1:
        s = sels[0]
        if s["t"] == "wild":
            return (dots or ".") + "*"
        if s["t"] == "name" and IDENT.match(s["v"]):
            return (dots or ".") + s["v"]
    return dots + "[" + ", ".join(render_sel(s) for s in sels) + "]"


def render(q: Dict[str, Any], root: str = "$") -> str:
    return root + "".join(render_seg(s) for s in q["segs"])


def render_lit(v: Any) -> str:
    if v is None:
        return "null"
    if v is True:
        return "true"
    if v is False:
        return "false"
    if isinstance(v, str):
        return quote(v)
    if isinstance(v, float):
        return repr(v)
    return str(v)


def render_expr(e: Dict[str, Any]) -> str:
    t = e["t"]
    if t == "cmp":
        return f"{render_expr(e['l'])} {e['op']} {render_expr(e['r'])}"
    if t == "and":
        return f"{render_expr(e['l'])} && {render_expr(e['r'])}"
    if t == "or":
        return f"{render_expr(e['l'])} || {render_expr(e['r'])}"
    if t == "not":
        return "!" + render_expr(e["e"])
    if t == "paren":
        return "(" + render_expr(e["e"]) + ")"
    if t == "rel":
        return render(e["q"], "@")
    if t == "root":
        return render(e["q"], "$")
    if t == "lit":
        return render_lit(e["v"])
    if t == "call":
        return e["name"] + "(" + ", ".join(render_expr(a) for a in e["args"]) + ")"
    raise ValueError(t)


# ---------------------------------------------------------------------------
# generation
# ---------------------------------------------------------------------------
class Features:
    """What the generator may use (swarm-style: each run enables a subset)."""

    def __init__(
        self,
        *,
        desc: bool = True,
        filters: bool = True,
        nested: int = 2,
        slices: bool = True,
        multi: bool = True,
        roots: bool = True,
        functions: Optional[Dict[str, Tuple[Tuple[str, ...], str]]] = None,
        max_segs: int = 4,
        keys: Sequence[str] = KEYS,
        neg_step: bool = True,
    ) -> None:
        self.desc = desc
        self.filters = filters
        self.nested = nested
        self.slices = slices
        self.multi = multi
        self.roots = roots
        self.functions = dict(BUILTINS if functions is None else functions)
        self.max_segs = max_segs
        self.keys = tuple(keys)
        self.neg_step = neg_step


def gen_sel(rng: random.Random, f: Features, depth: int) -> Dict[str, Any]:
    r = rng.random()
    if r < 0.28:
        return {"t": "name", "v": rng.choice(f.keys), "dq": rng.random() < 0.2}
    if r < 0.45:
        return {"t": "index", "v": rng.choice((0, 0, 1, 1, 2, -1, -2, 3))}
    if r < 0.58 and f.slices:
        steps = (None, 1, 2, -1, -2, 0) if f.neg_step else (None, 1, 2)
        return {
            "t": "slice",
            "a": rng.choice((None, None, 0, 1, -1, -2, 2)),
            "b": rng.choice((None, None, 1, 2, 3, -1, 0)),
            "c": rng.choice(steps),
        }
    if r < 0.78 or not f.filters or depth >= f.nested:
        return {"t": "wild"}
    return {"t": "filter", "e": gen_logical(rng, f, depth + 1, 0)}


def gen_seg(rng: random.Random, f: Features, depth: int) -> Dict[str, Any]:
    kind = "desc" if (f.desc and rng.random() < 0.3) else "child"
    n = 1
    if f.multi and rng.random() < 0.25:
        n = rng.choice((2, 2, 3))
    sels = [gen_sel(rng, f, depth) for _ in range(n)]
    return {"k": kind, "sels": sels, "sh": rng.random() < 0.5}


def gen_query(rng: random.Random, f: Features, depth: int = 0, min_segs: int = 0) -> Dict[str, Any]:
    hi = max(min_segs, f.max_segs if depth == 0 else 2)
    n = rng.randint(min_segs, hi)
    if depth == 0 and n == 0 and rng.random() < 0.9:
        n = rng.randint(1, hi)
    return {"segs": [gen_seg(rng, f, depth) for _ in range(n)]}


def gen_singular(rng: random.Random, f: Features) -> Dict[str, Any]:
    n = rng.choice((0, 1, 1, 1, 2))
    segs = []
    for _ in range(n):
        if rng.random() < 0.7:
            sel = {"t": "name", "v": rng.choice(f.keys)}
        else:
            sel = {"t": "index", "v": rng.choice((0, 1, -1))}
        segs.append({"k": "child", "sels": [sel], "sh": rng.random() < 0.6})
    return {"segs": segs}


def gen_lit(rng: random.Random) -> Dict[str, Any]:
    r = rng.random()
    if r < 0.4:
        v: Any = rng.randint(0, 9)
    elif r < 0.6:
        v = rng.choice(("a", "ab", "abc", "x", ""))
    elif r < 0.7:
        v = rng.choice((True, False))
    elif r < 0.78:
        v = None
    elif r < 0.9:
        v = rng.choice((0.5, 1.0, 2.5, -1.5))
    else:
        v = rng.choice((-1, 10, 100))
    return {"t": "lit", "v": v}


def _fq(rng: random.Random, f: Features, q: Dict[str, Any]) -> Dict[str, Any]:
    return {"t": "root" if (f.roots and rng.random() < 0.25) else "rel", "q": q}


def _funcs_returning(f: Features, ret: str) -> List[str]:
    return sorted(n for n, (_a, r) in f.functions.items() if r == ret)


def gen_call(rng: random.Random, f: Features, name: str, depth: int, fdepth: int) -> Dict[str, Any]:
    args = []
    for i, at in enumerate(f.functions[name][0]):
        if at == "V":
            if name in ("match", "search") and i == 1 and rng.random() < 0.8:
                args.append({"t": "lit", "v": rng.choice(PATTERNS)})
            else:
                args.append(gen_value(rng, f, depth, fdepth + 1))
        elif at == "L":
            # the library accepts only queries, comparisons and &&/|| here
            r = rng.random()
            if r < 0.4:
                args.append(_fq(rng, f, gen_query(rng, f, depth + 1, 0)))
            elif r < 0.8:
                args.append(gen_cmp(rng, f, depth, fdepth + 1))
            else:
                args.append({"t": "and", "l": gen_cmp(rng, f, depth, fdepth + 1), "r": gen_cmp(rng, f, depth, fdepth + 1)})
        else:
            args.append(gen_nodes(rng, f, depth, fdepth + 1))
    return {"t": "call", "name": name, "args": args}


def gen_value(rng: random.Random, f: Features, depth: int, fdepth: int) -> Dict[str, Any]:
    r = rng.random()
    fv = _funcs_returning(f, "V")
    if r < 0.4:
        return gen_lit(rng)
    if r < 0.8 or not fv or fdepth >= 2:
        return _fq(rng, f, gen_singular(rng, f))
    return gen_call(rng, f, rng.choice(fv), depth, fdepth)


def gen_nodes(rng: random.Random, f: Features, depth: int, fdepth: int) -> Dict[str, Any]:
    fn = _funcs_returning(f, "N")
    if fn and fdepth < 2 and rng.random() < 0.25:
        return gen_call(rng, f, rng.choice(fn), depth, fdepth)
    sub = Features(
        desc=f.desc, filters=f.filters and depth < f.nested, nested=f.nested, slices=f.slices,
        multi=f.multi, roots=f.roots, functions=f.functions, max_segs=2, keys=f.keys, neg_step=f.neg_step,
    )
    return _fq(rng, f, gen_query(rng, sub, depth + 1, 0))


def gen_cmp(rng: random.Random, f: Features, depth: int, fdepth: int) -> Dict[str, Any]:
    op = rng.choice(("==", "!=", "<", "<=", ">", ">="))
    return {"t": "cmp", "op": op, "l": gen_value(rng, f, depth, fdepth), "r": gen_value(rng, f, depth, fdepth)}


def gen_logical(rng: random.Random, f: Features, depth: int, ldepth: int) -> Dict[str, Any]:
    r = rng.random()
    if r < 0.35:
        return gen_cmp(rng, f, depth, 0)
    if r < 0.6:
        return gen_nodes(rng, f, depth, 0)  # existence test
    fl = _funcs_returning(f, "L") + _funcs_returning(f, "N")
    if r < 0.75 and fl:
        return gen_call(rng, f, rng.choice(fl), depth, 0)
    if ldepth >= 2:
        return gen_cmp(rng, f, depth, 0)
    if r < 0.83:
        return {"t": "not", "e": gen_logical(rng, f, depth, ldepth + 1)} if rng.random() < 0.5 else {
            "t": "not", "e": {"t": "paren", "e": gen_logical(rng, f, depth, ldepth + 1)}}
    if r < 0.9:
        return {"t": "paren", "e": gen_logical(rng, f, depth, ldepth + 1)}
    return {
        "t": rng.choice(("and", "or")),
        "l": gen_logical(rng, f, depth, ldepth + 1),
        "r": gen_logical(rng, f, depth, ldepth + 1),
    }


# near-miss invalid texts: each dies somewhere in lexing / parsing / typing
INVALID_TEXTS = (
    "", "$[", "$[1,2", "$[?@.a < 1", "$.", "$..", "$[?@.a ==]", "$[?(@.a]", "$['a", '$["a', "$[01]", "$[-0]",
    "$[1:2:3:4]", "$[?@.* > 2]", "$[?length()==1]", "$[?length(@.a, @.b)==1]", "$[?nosuch(@.a)]",
    "$[?count(1) > 0]", "$[?true]", "$[?@.a == 'x' && 2]", "$[9007199254740992]", "$[?match(@.a)]",
    "$[?value(@.a, 1) == 1]", "$.a.", "a", "$[,]", "$[1,]", "$['a' 'b']", "$[?@.a === 1]",
    "$[?@['\\q'] == 1]", "$[?length(@.*) == 1]", "$[?!]", "$[?@.a && ]", "$..[?count(@..*)]", "$[?match(@.a, 'a') == true]",
    "$[1:9007199254740992]", "$[?@.a == 1e400]x", "$[?@[?@.a == ]]", "$$", "$[?$]]", "$[? ]",
)


# ---------------------------------------------------------------------------
# shrinking
# ---------------------------------------------------------------------------
def _shrink_expr(e: Dict[str, Any]) -> Iterator[Dict[str, Any]]:
    t = e["t"]
    if t in ("and", "or"):
        yield e["l"]
        yield e["r"]
        for s in _shrink_expr(e["l"]):
            yield {**e, "l": s}
        for s in _shrink_expr(e["r"]):
            yield {**e, "r": s}
    elif t in ("not", "paren"):
        yield e["e"]
        for s in _shrink_expr(e["e"]):
            yield {**e, "e": s}
    elif t == "cmp":
        for side in ("l", "r"):
            if e[side]["t"] != "lit":
                yield {**e, side: {"t": "lit", "v": 1}}
            for s in _shrink_expr(e[side]):
                yield {**e, side: s}
    elif t in ("rel", "root"):
        for sq in shrink_query(e["q"]):
            yield {**e, "q": sq}
    elif t == "call":
        for i, a in enumerate(e["args"]):
            for s in _shrink_expr(a):
                yield {**e, "args": e["args"][:i] + [s] + e["args"][i + 1 :]}


def shrink_query(q: Dict[str, Any]) -> Iterator[Dict[str, Any]]:
    segs = q["segs"]
    for i in range(len(segs)):
        yield {"segs": segs[:i] + segs[i + 1 :]}
    for i, seg in enumerate(segs):
        sels = seg["sels"]
        if len(sels) > 1:
            for j in range(len(sels)):
                yield {"segs": segs[:i] + [{**seg, "sels": sels[:j] + sels[j + 1 :]}] + segs[i + 1 :]}
        if seg["k"] == "desc":
            yield {"segs": segs[:i] + [{**seg, "k": "child"}] + segs[i + 1 :]}
        for j, sel in enumerate(sels):
            if sel["t"] == "filter":
                yield {"segs": segs[:i] + [{**seg, "sels": sels[:j] + [{"t": "wild"}] + sels[j + 1 :]}] + segs[i + 1 :]}
                for se in _shrink_expr(sel["e"]):
                    yield {"segs": segs[:i] + [{**seg, "sels": sels[:j] + [{"t": "filter", "e": se}] + sels[j + 1 :]}] + segs[i + 1 :]}
            elif sel["t"] == "slice":
                yield {"segs": segs[:i] + [{**seg, "sels": sels[:j] + [{"t": "wild"}] + sels[j + 1 :]}] + segs[i + 1 :]}


def dumps(q: Dict[str, Any]) -> str:
    return json.dumps(q, sort_keys=True)

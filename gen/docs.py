"""Document generators and JSON-able document specs.

A document *spec* is either ``{"json": value}`` (a tree) or
``{"graph": [node...], "root": i}`` where node is ``["d", [[key, ref]...]]``,
``["l", [ref...]]`` or ``["v", scalar]`` and ``ref`` is an index into the node
list -- which allows shared sub-objects (DAGs) and cycles.  Specs go into replay
files and to the pristine golden process, which rebuild the value from them.
"""

from __future__ import annotations

import copy
import random
from typing import Any
from typing import Dict
from typing import List
from typing import Tuple

KEYS = ("a", "b", "c", "d")
STRINGS = ("", "a", "ab", "abc", "b", "x", "é", "a\nb", "&", "a&b", "|", "~", "[ ]", "{  }", "a [ ] b", ", ", "a\"b", "\\")


def build(spec: Dict[str, Any]) -> Any:
    if "json" in spec:
        return copy.deepcopy(spec["json"])
    nodes = spec["graph"]
    objs: List[Any] = []
    for kind, _payload in nodes:
        objs.append({} if kind == "d" else [] if kind == "l" else None)
    for i, (kind, payload) in enumerate(nodes):
        if kind == "v":
            objs[i] = payload
    for i, (kind, payload) in enumerate(nodes):
        if kind == "d":
            for k, ref in payload:
                objs[i][k] = objs[ref]
        elif kind == "l":
            for ref in payload:
                objs[i].append(objs[ref])
    return objs[spec["root"]]


def canon(v: Any, _depth: int = 0) -> Any:
    """Typed encoding: distinguishes True/1/1.0/-0.0, keeps member order."""
    if _depth > 400:
        return ["deep"]
    if v is None:
        return ["n"]
    if v is True or v is False:
        return ["b", int(v)]
    if isinstance(v, int):
        return ["i", str(v)]
    if isinstance(v, float):
        return ["f", repr(v)]
    if isinstance(v, str):
        return ["s", v]
    if isinstance(v, list):
        return ["l", [canon(x, _depth + 1) for x in v]]
    if isinstance(v, dict):
        return ["d", [[k, canon(x, _depth + 1)] for k, x in v.items()]]
    return ["?", type(v).__name__, repr(v)]


def snapshot(v: Any) -> Any:
    """Typed deep snapshot including aliasing structure (handles DAGs and cycles)."""
    ids: Dict[int, int] = {}
    out: List[Any] = []

    def walk(x: Any) -> Any:
        if isinstance(x, (list, dict)):
            if id(x) in ids:
                return ["ref", ids[id(x)]]
            n = ids[id(x)] = len(out)
            out.append(None)
            if isinstance(x, list):
                out[n] = ["l", [walk(e) for e in x]]
            else:
                out[n] = ["d", [[k, walk(e)] for k, e in x.items()]]
            return ["ref", n]
        return canon(x)

    root = walk(v)
    return [root, out]


def scalar(rng: random.Random) -> Any:
    r = rng.random()
    if r < 0.45:
        return rng.randint(0, 9)
    if r < 0.65:
        return rng.choice(STRINGS)
    if r < 0.75:
        return rng.choice((True, False))
    if r < 0.82:
        return None
    if r < 0.92:
        return rng.choice((0.5, 1.0, 2.5, -1.5, 1e3))
    return rng.choice((-3, 10, 100, 2**53))


def random_tree(
    rng: random.Random,
    max_nodes: int = 20,
    max_depth: int = 4,
    p_dict: float = 0.5,
    keys: Tuple[str, ...] = KEYS,
    max_width: int = 4,
) -> Any:
    """A random JSON tree with a small key alphabet (so that queries hit)."""
    budget = [rng.randint(1, max_nodes)]

    def mk(depth: int) -> Any:
        budget[0] -= 1
        if depth >= max_depth or budget[0] <= 0 or rng.random() < 0.3 * depth / max_depth:
            if rng.random() < 0.15:
                return rng.choice(([], {}))
            return scalar(rng)
        width = rng.randint(0, max_width)
        if rng.random() < p_dict:
            ks = list(keys)
            rng.shuffle(ks)
            out: Dict[str, Any] = {}
            for k in ks[:width]:
                out[k] = mk(depth + 1)
            return out
        return [mk(depth + 1) for _ in range(width)]

    root_kind = rng.random()
    if root_kind < 0.05:
        return scalar(rng)
    v = mk(0)
    if not isinstance(v, (list, dict)):
        v = [v]
    return v


def count_nodes(v: Any) -> int:
    if isinstance(v, list):
        return 1 + sum(count_nodes(x) for x in v)
    if isinstance(v, dict):
        return 1 + sum(count_nodes(x) for x in v.values())
    return 1


def get(doc: Any, loc: Tuple[Any, ...]) -> Any:
    for k in loc:
        doc = doc[k]
    return doc


# ---------------------------------------------------------------------------
# shrinking of tree docs
# ---------------------------------------------------------------------------
def shrink_json(v: Any):
    """Yield structurally smaller variants of a JSON tree (one edit each)."""
    if isinstance(v, list):
        for i in range(len(v)):
            yield v[:i] + v[i + 1 :]
        for i, x in enumerate(v):
            if isinstance(x, (list, dict)):
                yield v[:i] + [0] + v[i + 1 :]
            for sx in shrink_json(x):
                yield v[:i] + [sx] + v[i + 1 :]
    elif isinstance(v, dict):
        items = list(v.items())
        for i in range(len(items)):
            yield dict(items[:i] + items[i + 1 :])
        for i, (k, x) in enumerate(items):
            if isinstance(x, (list, dict)):
                yield dict(items[:i] + [(k, 0)] + items[i + 1 :])
            for sx in shrink_json(x):
                yield dict(items[:i] + [(k, sx)] + items[i + 1 :])
    elif isinstance(v, str) and v:
        yield ""
    elif isinstance(v, (int, float)) and not isinstance(v, bool) and v != 0:
        yield 0

"""Sensitivity self-test: planted defects the checks must catch.

Each mutant is a list of (file, old, new) replacements applied to a scratch
copy of /repo (outside /repo and /verif, removed afterwards).  For each mutant:
the repository's own test suite must still pass, and the named check must
report a violation (exit 1) within its quick budget.

    check selftest mutants [ids...] [--keep-going] [--tier quick]

Development-time gate; not part of quick/thorough.
"""

from __future__ import annotations

import json
import os
import shutil
import subprocess
import sys
import tempfile
import time
from typing import Dict
from typing import List
from typing import Tuple

VERIF = os.path.dirname(os.path.dirname(os.path.abspath(__file__)))
REPO = "/repo"
P = "jsonpath_rfc9535/"

Mut = Dict[str, object]

MUTANTS: Dict[str, Mut] = {}


def mut(mid: str, prop: str, what: str, edits: List[Tuple[str, str, str]], base_patch: str = "") -> None:
    MUTANTS[mid] = {"property": prop, "what": what, "edits": edits, "base_patch": base_patch}


# ---- C14 -------------------------------------------------------------------
mut("M1", "C14", "function_extensions dict created once at class level (shared by every environment)", [
    (P + "environment.py", "    nondeterministic = False\n\n    def __init__(self) -> None:",
     "    nondeterministic = False\n    _shared_functions: Dict[str, FilterFunction] = {}\n\n    def __init__(self) -> None:"),
    (P + "environment.py", "        self.function_extensions: Dict[str, FilterFunction] = {}\n", "        self.function_extensions: Dict[str, FilterFunction] = self._shared_functions\n"),
])
mut("M2", "C14", "module-level compile cache keyed by query text only", [
    (P + "environment.py", "class JSONPathEnvironment:\n", "_COMPILE_CACHE: Dict[str, Any] = {}\n\n\nclass JSONPathEnvironment:\n"),
    (P + "environment.py", "        tokens = tokenize(query)\n        stream = TokenStream(tokens)\n        return JSONPathQuery(env=self, segments=tuple(self.parser.parse(stream)))",
     "        if query in _COMPILE_CACHE:\n            return _COMPILE_CACHE[query]\n        tokens = tokenize(query)\n        stream = TokenStream(tokens)\n        _COMPILE_CACHE[query] = JSONPathQuery(env=self, segments=tuple(self.parser.parse(stream)))\n        return _COMPILE_CACHE[query]"),
])
mut("M3", "C14", "RootFilterQuery memo keyed by id(root) (stale after the root died / id reuse) and query text", [
    (P + "filter_expressions.py", "class RootFilterQuery(FilterQuery):", "_ROOT_MEMO: dict = {}\n\n\nclass RootFilterQuery(FilterQuery):"),
    (P + "filter_expressions.py", "        return JSONPathNodeList(self.query.find(context.root))",
     "        key = (str(self.query), id(context.root))\n        if key not in _ROOT_MEMO:\n            if len(_ROOT_MEMO) > 64:\n                _ROOT_MEMO.clear()\n            _ROOT_MEMO[key] = JSONPathNodeList(self.query.find(context.root))\n        return _ROOT_MEMO[key]"),
])
mut("M3b", "C14", "RootFilterQuery memo kept on the expression object (first root wins, refreshed only for a root of another type)", [
    (P + "filter_expressions.py", "class RootFilterQuery(FilterQuery):\n    \"\"\"A JSONPath expression starting at the root node.\"\"\"\n\n    __slots__ = ()",
     "class RootFilterQuery(FilterQuery):\n    \"\"\"A JSONPath expression starting at the root node.\"\"\"\n\n    __slots__ = (\"_memo\",)"),
    (P + "filter_expressions.py", "        return JSONPathNodeList(self.query.find(context.root))",
     "        memo = getattr(self, \"_memo\", None)\n        if memo is None or type(memo[0]) is not type(context.root) or len(memo[0]) != len(context.root):\n            memo = (context.root, JSONPathNodeList(self.query.find(context.root)))\n            self._memo = memo\n        return memo[1]"),
])
mut("M4", "C14", "negative-step slice implemented with an in-place reverse() that is not undone on early exit", [
    (P + "selectors.py", "        if isinstance(node.value, list) and self.slice.step != 0:\n            for idx, element in zip(  # noqa: B905\n                range(*self.slice.indices(len(node.value))), node.value[self.slice]\n            ):\n                yield node.new_child(element, idx)",
     "        if isinstance(node.value, list) and self.slice.step != 0:\n            if self.slice.step is not None and self.slice.step < 0:\n                n = len(node.value)\n                idxs = list(range(*self.slice.indices(n)))\n                node.value.reverse()\n                for idx in idxs:\n                    yield node.new_child(node.value[n - 1 - idx], idx)\n                node.value.reverse()\n                return\n            for idx, element in zip(  # noqa: B905\n                range(*self.slice.indices(len(node.value))), node.value[self.slice]\n            ):\n                yield node.new_child(element, idx)"),
])
mut("M5", "C14", "match/search share one compiled-pattern memo keyed by the pattern only", [
    (P + "function_extensions/_pattern.py", "from typing import List\n", "from typing import List\n\nMEMO: dict = {}\n"),
    (P + "function_extensions/match.py", "            return bool(re.fullmatch(map_re(pattern), string))",
     "            from ._pattern import MEMO\n            if pattern not in MEMO:\n                MEMO[pattern] = re.compile(map_re(pattern)).fullmatch\n            return bool(MEMO[pattern](string))"),
    (P + "function_extensions/search.py", "            return bool(re.search(map_re(pattern), string, re.VERSION1))",
     "            from ._pattern import MEMO\n            if pattern not in MEMO:\n                MEMO[pattern] = re.compile(map_re(pattern), re.VERSION1).search\n            return bool(MEMO[pattern](string))"),
])
mut("M7", "C14", "a FilterContext kept on the selector and reset only on normal completion", [
    (P + "selectors.py", "    __slots__ = (\"expression\",)\n\n    def __init__(\n        self,\n        *,\n        env: JSONPathEnvironment,\n        token: Token,\n        expression: FilterExpression,\n    ) -> None:\n        super().__init__(env=env, token=token)\n        self.expression = expression",
     "    __slots__ = (\"expression\", \"_ctx\")\n\n    def __init__(\n        self,\n        *,\n        env: JSONPathEnvironment,\n        token: Token,\n        expression: FilterExpression,\n    ) -> None:\n        super().__init__(env=env, token=token)\n        self.expression = expression\n        self._ctx = None"),
    (P + "selectors.py", "        elif isinstance(node.value, list):\n            for i, element in enumerate(node.value):\n                context = FilterContext(\n                    env=self.env,\n                    current=element,\n                    root=node.root,\n                )\n                try:\n                    if self.expression.evaluate(context):\n                        yield node.new_child(element, i)\n                except JSONPathTypeError as err:\n                    if not err.token:\n                        err.token = self.token\n                    raise\n",
     "        elif isinstance(node.value, list):\n            if self._ctx is None:\n                self._ctx = FilterContext(env=self.env, current=None, root=node.root)\n            context = self._ctx\n            for i, element in enumerate(node.value):\n                context.current = element\n                try:\n                    if self.expression.evaluate(context):\n                        yield node.new_child(element, i)\n                        context = self._ctx or context\n                except JSONPathTypeError as err:\n                    if not err.token:\n                        err.token = self.token\n                    raise\n            self._ctx = None\n"),
])
# ---- C16 -------------------------------------------------------------------
mut("M8", "C16", "filter context stored on the selector between creation and use (thread race)", [
    (P + "selectors.py", "    __slots__ = (\"expression\",)\n\n    def __init__(\n        self,\n        *,\n        env: JSONPathEnvironment,\n        token: Token,\n        expression: FilterExpression,\n    ) -> None:\n        super().__init__(env=env, token=token)\n        self.expression = expression",
     "    __slots__ = (\"expression\", \"_ctx\")\n\n    def __init__(\n        self,\n        *,\n        env: JSONPathEnvironment,\n        token: Token,\n        expression: FilterExpression,\n    ) -> None:\n        super().__init__(env=env, token=token)\n        self.expression = expression\n        self._ctx = None"),
    (P + "selectors.py", "            for i, element in enumerate(node.value):\n                context = FilterContext(\n                    env=self.env,\n                    current=element,\n                    root=node.root,\n                )\n                try:\n                    if self.expression.evaluate(context):",
     "            for i, element in enumerate(node.value):\n                self._ctx = FilterContext(\n                    env=self.env,\n                    current=element,\n                    root=node.root,\n                )\n                try:\n                    if self.expression.evaluate(self._ctx):"),
])
mut("M9", "C16", "descendant segment keeps its work stack on self (shared by iterators of one compiled query)", [
    (P + "segments.py", "    __slots__ = (\"env\", \"token\", \"selectors\")", "    __slots__ = (\"env\", \"token\", \"selectors\", \"_stack\")"),
    (P + "segments.py", "        stack: List[Iterator[JSONPathNode]] = [iter((node,))]\n\n        while stack:\n            for _node in stack[-1]:\n                if depth + len(stack) - 1 > self.env.max_recursion_depth:",
     "        self._stack = stack = [iter((node,))]\n\n        while stack:\n            stack = self._stack\n            for _node in stack[-1]:\n                if depth + len(stack) - 1 > self.env.max_recursion_depth:"),
])
mut("M10", "C16", "parser stores the token stream on self (concurrent compile on a shared environment)", [
    (P + "parse.py", "        stream.expect(TokenType.ROOT)\n        stream.next_token()\n        yield from self.parse_query(stream, in_filter=False)\n\n        if stream.current.type_ != TokenType.EOF:",
     "        self._stream = stream\n        stream.expect(TokenType.ROOT)\n        stream.next_token()\n        yield from self.parse_query(stream, in_filter=False)\n        stream = self._stream\n\n        if stream.current.type_ != TokenType.EOF:"),
    (P + "parse.py", "    def parse_filter_selector(self, stream: TokenStream) -> FilterSelector:\n        tok = stream.next_token()",
     "    def parse_filter_selector(self, stream: TokenStream) -> FilterSelector:\n        stream = self._stream\n        tok = stream.next_token()"),
])
mut("M11", "C16", "finditer stashes the root on the environment for RootFilterQuery to read", [
    (P + "query.py", "        nodes: Iterable[JSONPathNode] = [", "        self.env._root = value  # type: ignore[attr-defined]\n        nodes: Iterable[JSONPathNode] = ["),
    (P + "filter_expressions.py", "        return JSONPathNodeList(self.query.find(context.root))", "        root = getattr(context.env, \"_root\", context.root)\n        return JSONPathNodeList(self.query.finditer_keep(root))"),
    (P + "query.py", "    apply = find\n", "    apply = find\n\n    def finditer_keep(self, value):  # noqa: ANN001, ANN201, D102\n        keep = getattr(self.env, \"_root\", None)\n        try:\n            return JSONPathNodeList(self.finditer(value))\n        finally:\n            self.env._root = keep\n"),
])
# ---- C17 -------------------------------------------------------------------
mut("M12", "C17", "array elements shuffled as well (wildcard selector)", [
    (P + "selectors.py", "        elif isinstance(node.value, list):\n            for i, element in enumerate(node.value):\n                yield node.new_child(element, i)\n\n\nclass FilterSelector",
     "        elif isinstance(node.value, list):\n            elements = list(enumerate(node.value))\n            if self.env.nondeterministic:\n                random.shuffle(elements)\n            for i, element in elements:\n                yield node.new_child(element, i)\n\n\nclass FilterSelector"),
])
mut("M13", "C17", "descendant walk may visit a child before its parent (frontier seeded with grandchildren)", [
    (P + "segments.py", "            yield node\n            frontier.extend(_nondeterministic_runs(node))\n",
     "            runs = _nondeterministic_runs(node)\n            if runs and len(frontier) > 2 and random.random() < 0.2:  # noqa: S311\n                first = runs[0].popleft()\n                if not runs[0]:\n                    del runs[0]\n                yield first\n                yield node\n                frontier.extend(_nondeterministic_runs(first))\n            else:\n                yield node\n            frontier.extend(runs)\n"),
])
mut("M14", "C17", "filter selector on an object not shuffled (validity holds, exhaustiveness lost)", [
    (P + "selectors.py", "        if isinstance(node.value, dict):\n            if self.env.nondeterministic:\n                _members = list(node.value.items())\n                random.shuffle(_members)\n                members: Iterable[Any] = iter(_members)\n            else:\n                members = node.value.items()\n\n            for name, val in members:\n                context = FilterContext(",
     "        if isinstance(node.value, dict):\n            members = node.value.items()\n\n            for name, val in members:\n                context = FilterContext("),
])
mut("M15", "C17", "frontier walk drops the last node of a run when the frontier is large", [
    (P + "segments.py", "            node = run.popleft()\n            if not run:\n                del frontier[idx]\n",
     "            node = run.popleft()\n            if len(frontier) > 3 and len(run) == 1:\n                run.clear()\n            if not run:\n                del frontier[idx]\n"),
])
mut("M16", "C17", "the random pick is constant (always the first run): a single ordering", [
    (P + "segments.py", "            idx = random.randrange(len(frontier))  # noqa: S311", "            idx = 0"),
])
mut("M16b", "C17", "original queue walk restored (revert of the exhaustiveness fix)", [
    (P + "segments.py", "            idx = random.randrange(len(frontier))  # noqa: S311\n            run = frontier[idx]",
     "            idx = random.choice([0, len(frontier) - 1])  # noqa: S311\n            run = frontier[idx]"),
])
# ---- C18 -------------------------------------------------------------------
mut("M17", "C18", "> becomes >= in the depth check", [
    (P + "segments.py", "                if depth + len(stack) - 1 > self.env.max_recursion_depth:", "                if depth + len(stack) - 1 >= self.env.max_recursion_depth:"),
])
mut("M18", "C18", "nondeterministic mode: no up-front bound check (bound lost in nondeterministic mode)", [
    (P + "segments.py", "        for _ in self._visit(root, depth):\n            pass\n", "        if not isinstance(root.value, list):\n            for _ in self._visit(root, depth):\n                pass\n"),
])
mut("M19", "C18", "configured limits below 3 are silently treated as 3", [
    (P + "segments.py", "                if depth + len(stack) - 1 > self.env.max_recursion_depth:", "                if depth + len(stack) - 1 > max(self.env.max_recursion_depth, 3):"),
])
mut("M20", "C18", "depth restarts for array elements beyond the first", [
    (P + "segments.py", "                yield _node\n                stack.append(_container_children(_node))\n                break",
     "                yield _node\n                if _node.location and _node.location[-1] == 2:\n                    yield from self._visit_shallow(_node)\n                else:\n                    stack.append(_container_children(_node))\n                break"),
    (P + "segments.py", "    def _nondeterministic_visit(\n", "    def _visit_shallow(self, node):  # noqa: ANN001, ANN201, ANN202\n        for child in _container_children(node):\n            yield from self._visit(child, 1)\n\n    def _nondeterministic_visit(\n"),
])
# ---- C20 -------------------------------------------------------------------
mut("M21", "C20", "output streamed with json.dump again (partial array before an encoder failure)", [
    (P + "cli.py", "    args.output.write(result)\n", "    del result\n    json.dump(values, args.output, indent=indent)\n"),
])
mut("M22", "C20", "evaluation error swallowed: exit status 0", [
    (P + "cli.py", "    except JSONPathError as err:\n        if args.debug:\n            raise\n        sys.stderr.write(f\"error: {err}\\n\")\n        sys.exit(1)\n    except RecursionError as err:\n        # Each segment", "    except JSONPathError as err:\n        if args.debug:\n            raise\n        sys.stderr.write(f\"error: {err}\\n\")\n        sys.exit(0)\n    except RecursionError as err:\n        # Each segment"),
])
# (M23 "--pretty applied only when writing to stdout" was dropped: the statement asks for
# "exactly the JSON array", not for a particular indentation, and the check now accepts any
# output that parses to the same typed value.)
mut("M24", "C20", "result also echoed to stdout when -o is given", [
    (P + "cli.py", "    args.output.write(result)\n", "    args.output.write(result)\n    if args.output is not sys.stdout and len(values) > 3:\n        sys.stdout.write(result)\n"),
])
mut("M25", "C20", "query file not stripped", [
    (P + "cli.py", "        query = args.query_file.read().strip()", "        query = args.query_file.read().rstrip(\"\\n\")"),
])
mut("M26", "C20", "a handler that prints the traceback itself", [
    (P + "cli.py", "    except JSONPathError as err:\n        if args.debug:\n            raise\n        sys.stderr.write(f\"error: {err}\\n\")\n        sys.exit(1)\n    except RecursionError as err:\n        # The parser", "    except JSONPathError as err:\n        if args.debug:\n            raise\n        import traceback\n\n        traceback.print_exc()\n        sys.stderr.write(f\"error: {err}\\n\")\n        sys.exit(1)\n    except RecursionError as err:\n        # The parser"),
])
mut("M27", "C20", "document decode errors of the UTF-8 kind escape again", [
    (P + "cli.py", "    except (ValueError, RecursionError) as err:", "    except (json.JSONDecodeError, RecursionError) as err:"),
])


mut("M28", "C16", "S-C16f's spare traversal stack with read and clear collapsed into ONE source line (window between two bytecodes; needs instruction-level pre-emption)", [
    (P + "segments.py", "        stack: List[Iterator[JSONPathNode]] = (\n            self._spare_stack if self._spare_stack is not None else []\n        )\n        stack.append(iter((node,)))\n        self._spare_stack = None\n",
     "        stack, self._spare_stack = (self._spare_stack if self._spare_stack is not None else []), None\n        stack.append(iter((node,)))\n"),
], base_patch="seeded/S-C16f/patch.diff")
mut("M29", "C18", "the limit is read from the environment's class (an instance attribute set by the user is ignored)", [
    (P + "segments.py", "                if depth + len(stack) - 1 > self.env.max_recursion_depth:", "                if depth + len(stack) - 1 > type(self.env).max_recursion_depth:"),
])
mut("M30", "C17", "the descendant segment reads the mode from the environment's class (an object on which the user switched it on walks in document order: permitted orderings never produced)", [
    (P + "segments.py", "            self._nondeterministic_visit if self.env.nondeterministic else self._visit", "            self._nondeterministic_visit if type(self.env).nondeterministic else self._visit"),
])
mut("M31", "C20", "index errors get a second line (a hint) on standard error", [
    (P + "cli.py", '        sys.stderr.write(f"index error: {err}\\n")', '        sys.stderr.write(f"index error: {err}\\nhint: indices must be within the I-JSON range\\n")'),
])
mut("M32", "C20", "the diagnostic for an undecodable document quotes the offending text, line breaks included", [
    (P + "cli.py", '        sys.stderr.write(f"target document json decode error: {err}\\n")', '        sys.stderr.write(f"target document json decode error: {err}: {getattr(err, \'doc\', \'\')[:40]}\\n")'),
])
mut("M33", "C18", "a scratch buffer whose size explodes beyond 150 levels of nesting (memory, not time)", [
    (P + "segments.py", "                yield _node\n                stack.append(_container_children(_node))\n", "                yield _node\n                if len(stack) > 150:\n                    _scratch = bytearray(1 << 37)  # noqa: F841\n                stack.append(_container_children(_node))\n"),
])


def apply_edits(root: str, edits: List[Tuple[str, str, str]]) -> None:
    for rel, old, new in edits:
        path = os.path.join(root, rel)
        with open(path) as fd:
            s = fd.read()
        if old not in s:
            raise RuntimeError(f"mutant edit does not apply to {rel}: {old[:60]!r}")
        with open(path, "w") as fd:
            fd.write(s.replace(old, new, 1))


def run_tests(root: str) -> Tuple[bool, str]:
    p = subprocess.run(
        [sys.executable, "-B", "-m", "pytest", "-q", "-p", "no:cacheprovider", "--continue-on-collection-errors"],
        cwd=root, capture_output=True, text=True, timeout=900, env={**os.environ, "PYTHONPATH": root, "PYTHONDONTWRITEBYTECODE": "1"}, check=False,
    )
    tail = p.stdout.strip().splitlines()[-1] if p.stdout.strip() else p.stderr[-200:]
    ok = "352 passed" in tail and " failed" not in tail
    return ok, tail


def main(argv: List[str]) -> int:
    tier = "quick"
    ids = [a for a in argv if not a.startswith("--")]
    if not ids:
        ids = sorted(MUTANTS, key=lambda x: (int("".join(c for c in x if c.isdigit())), x))
    results = {}
    base = tempfile.mkdtemp(prefix="verif-mut-")
    try:
        for mid in ids:
            m = MUTANTS[mid]
            root = os.path.join(base, mid)
            subprocess.run(["rsync", "-a", "--exclude", ".git", "--exclude", "__pycache__", REPO + "/", root + "/"], check=True)
            t0 = time.monotonic()
            try:
                if m.get("base_patch"):
                    pr = subprocess.run(["patch", "-p1", "--no-backup-if-mismatch", "-i", os.path.join(VERIF, str(m["base_patch"]))], cwd=root, capture_output=True, text=True, check=False)
                    if pr.returncode != 0:
                        raise RuntimeError("base patch does not apply: " + pr.stdout[-300:])
                apply_edits(root, m["edits"])  # type: ignore[arg-type]
            except RuntimeError as exc:
                results[mid] = {"status": "DOES-NOT-APPLY", "detail": str(exc)}
                print(f"{mid}: DOES-NOT-APPLY {exc}", flush=True)
                shutil.rmtree(root, ignore_errors=True)
                continue
            ok, tail = run_tests(root)
            env = {**os.environ, "VERIF_REPO": root, "VERIF_MINIMISE_S": "5"}
            env.pop("VERIF_REEXEC", None)
            p = subprocess.run([sys.executable, "-B", os.path.join(VERIF, "check"), str(m["property"]), "--tier", tier], capture_output=True, text=True, env=env, timeout=1800, check=False)
            viol = [ln for ln in p.stdout.splitlines() if ln.startswith("VIOLATION")]
            sig = [ln.strip() for ln in p.stdout.splitlines() if ln.strip().startswith("signature:")]
            status = "CAUGHT" if p.returncode == 1 and viol else ("MISSED" if p.returncode == 0 else f"HARNESS({p.returncode})")
            results[mid] = {"property": m["property"], "what": m["what"], "suite_passes": ok, "suite": tail, "status": status, "signatures": sig[:3], "wall_s": round(time.monotonic() - t0, 1)}
            print(f"{mid} [{m['property']}] suite_passes={ok} -> {status} {sig[:2]} ({results[mid]['wall_s']}s)  :: {m['what']}", flush=True)
            if status.startswith("HARNESS"):
                print(p.stdout[-1500:], p.stderr[-1500:])
            shutil.rmtree(root, ignore_errors=True)
            # replays written by these runs are scratch: remove
            for ln in viol:
                path = ln.split("replay=")[-1].strip()
                if os.path.exists(path):
                    os.remove(path)
    finally:
        shutil.rmtree(base, ignore_errors=True)
    out = os.path.join(VERIF, "selftest", "mutants_last.json")
    merged = {}
    if os.path.exists(out):
        with open(out) as fd:
            merged = json.load(fd)
    merged.update(results)
    with open(out, "w") as fd:
        json.dump(merged, fd, indent=1)
    bad = [k for k, v in results.items() if v.get("status") != "CAUGHT"]
    print(f"mutants: {len(results) - len(bad)}/{len(results)} caught; not caught: {bad}")
    return 0 if not bad else 1

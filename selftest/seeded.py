"""Run the checks against the independently written breaking changes kept under
/verif/seeded/<id>/ (patch.diff, demo.py, meta.json).

    check selftest seeded import <worktree> <id> <property> ["needs..."]   copy patch.diff + demo.py from a scratch worktree
    check selftest seeded run [ids...] [--thorough]                      confirm (suite passes, demo fails with / passes without) and run the check

Everything happens in a scratch copy of /repo (outside /repo and /verif, removed
afterwards); /repo itself is never modified.  Results are written back to
meta.json ("confirmed", "caught_by", "signatures").
"""

from __future__ import annotations

import json
import os
import re
import shutil
import subprocess
import sys
import tempfile
import time
from typing import List

VERIF = os.path.dirname(os.path.dirname(os.path.abspath(__file__)))
SEEDED = os.path.join(VERIF, "seeded")
REPO = "/repo"


def _sh(cmd: List[str], **kw) -> subprocess.CompletedProcess:
    return subprocess.run(cmd, capture_output=True, text=True, check=False, **kw)


def do_import(argv: List[str]) -> int:
    wt, sid, prop = argv[0], argv[1], argv[2]
    needs = argv[3] if len(argv) > 3 else ""
    dst = os.path.join(SEEDED, sid)
    os.makedirs(dst, exist_ok=True)
    shutil.copy(os.path.join(wt, "patch.diff"), os.path.join(dst, "patch.diff"))
    with open(os.path.join(wt, "demo.py")) as fd:
        demo = fd.read()
    # demos hard-code their worktree; make them relocatable
    demo = demo.replace(wt.rstrip("/"), "@@ROOT@@")
    with open(os.path.join(dst, "demo.py"), "w") as fd:
        fd.write(demo)
    meta = {"id": sid, "breaks": prop, "needs_to_manifest": needs, "origin": "independent sub-agent given only the property text and a scratch worktree", "ran": []}
    with open(os.path.join(dst, "meta.json"), "w") as fd:
        json.dump(meta, fd, indent=1)
    print(f"imported {sid}")
    return 0


def _scratch_repo(base: str, name: str) -> str:
    root = os.path.join(base, name)
    subprocess.run(["rsync", "-a", "--exclude", ".git", "--exclude", "__pycache__", REPO + "/", root + "/"], check=True)
    return root


def _run_demo(sdir: str, root: str) -> int:
    with open(os.path.join(sdir, "demo.py")) as fd:
        demo = fd.read().replace("@@ROOT@@", root)
    path = os.path.join(root, "demo.py")
    with open(path, "w") as fd:
        fd.write(demo)
    env = {**os.environ, "PYTHONPATH": root, "PYTHONDONTWRITEBYTECODE": "1"}
    try:
        p = _sh([sys.executable, "-B", path], cwd=root, env=env, timeout=600)
        return p.returncode
    except subprocess.TimeoutExpired:
        return 124


def do_run(argv: List[str]) -> int:
    thorough = "--thorough" in argv
    ids = [a for a in argv if not a.startswith("--")] or sorted(os.listdir(SEEDED))
    base = tempfile.mkdtemp(prefix="verif-seeded-")
    missed = []
    try:
        for sid in ids:
            sdir = os.path.join(SEEDED, sid)
            if not os.path.exists(os.path.join(sdir, "patch.diff")):
                continue
            with open(os.path.join(sdir, "meta.json")) as fd:
                meta = json.load(fd)
            prop = meta["breaks"]
            t0 = time.monotonic()
            clean = _scratch_repo(base, sid + "-clean")
            demo_clean = _run_demo(sdir, clean)
            shutil.rmtree(clean, ignore_errors=True)
            root = _scratch_repo(base, sid)
            p = _sh(["patch", "-p1", "--no-backup-if-mismatch", "-i", os.path.join(sdir, "patch.diff")], cwd=root)
            if p.returncode != 0:
                print(f"{sid}: patch does not apply to the current tree:\n{p.stdout[-600:]}")
                meta["ran"].append({"when": time.strftime("%Y-%m-%d %H:%M"), "result": "patch does not apply"})
                shutil.rmtree(root, ignore_errors=True)
                continue
            demo_patched = _run_demo(sdir, root)
            t = _sh([sys.executable, "-B", "-m", "pytest", "-q", "-p", "no:cacheprovider", "--continue-on-collection-errors"], cwd=root, env={**os.environ, "PYTHONPATH": root, "PYTHONDONTWRITEBYTECODE": "1"}, timeout=1200)
            tail = t.stdout.strip().splitlines()[-1] if t.stdout.strip() else ""
            suite_ok = "352 passed" in tail and "failed" not in tail
            confirmed = suite_ok and demo_clean == 0 and demo_patched != 0
            results = {}
            for tier in ["quick"] + (["thorough"] if thorough else []):
                env = {**os.environ, "VERIF_REPO": root, "VERIF_MINIMISE_S": "20"}
                env.pop("VERIF_REEXEC", None)
                c = _sh([sys.executable, "-B", os.path.join(VERIF, "check"), prop, "--tier", tier], env=env, timeout=3000)
                viol = [ln for ln in c.stdout.splitlines() if ln.startswith("VIOLATION")]
                sigs = [ln.strip()[len("signature: "):] for ln in c.stdout.splitlines() if ln.strip().startswith("signature:")]
                whats = [ln.strip()[len("what: "):][:300] for ln in c.stdout.splitlines() if ln.strip().startswith("what:")]
                status = "CAUGHT" if c.returncode == 1 and viol else ("MISSED" if c.returncode == 0 else f"HARNESS({c.returncode})")
                raw_hits = runs = None
                try:
                    with open(os.path.join(VERIF, "scratch", "evidence", f"{prop}.json")) as fd:
                        ev = json.load(fd)
                    raw_hits = ev["coverage"]["counters"].get("violations_raw", 0)
                    runs = ev["coverage"]["evaluations"]
                except Exception:  # noqa: BLE001
                    pass
                results[tier] = {"status": status, "signatures": sigs[:4], "what": whats[:2], "violating_observations": raw_hits, "of_runs": runs, "seed": os.environ.get("VERIF_SEED", "0")}
                # keep the (minimised) replay of the first violation next to the patch
                for ln in viol[:1]:
                    rp = ln.split("replay=")[-1].strip()
                    if os.path.exists(rp):
                        with open(rp) as fd:
                            doc = json.load(fd)
                        with open(os.path.join(sdir, f"replay-{tier}.json"), "w") as fd:
                            json.dump(doc, fd, indent=1)
                for ln in viol:
                    rp = ln.split("replay=")[-1].strip()
                    if os.path.exists(rp):
                        os.remove(rp)
                if status.startswith("HARNESS"):
                    print(c.stdout[-1500:], c.stderr[-800:])
                if status == "CAUGHT":
                    break
            caught = any(r["status"] == "CAUGHT" for r in results.values())
            # the stored (minimised) replay file must reproduce on the changed tree, in a
            # fresh interpreter, and must show nothing on the unchanged tree
            for tier in list(results):
                rp = os.path.join(sdir, f"replay-{tier}.json")
                if results[tier]["status"] == "CAUGHT" and os.path.exists(rp):
                    outs = {}
                    for label, tree in (("changed", root), ("unchanged", REPO)):
                        env = {**os.environ, "VERIF_REPO": tree}
                        env.pop("VERIF_REEXEC", None)
                        c = _sh([sys.executable, "-B", os.path.join(VERIF, "check"), "--replay", rp], env=env, timeout=1200)
                        outs[label] = c.returncode
                    results[tier]["replay_exit_on_changed_tree"] = outs["changed"]
                    results[tier]["replay_exit_on_unchanged_tree"] = outs["unchanged"]
                    if outs != {"changed": 1, "unchanged": 0}:
                        print(f"{sid}: REPLAY PROBLEM {outs}", flush=True)
            if not caught:
                missed.append(sid)
            meta["confirmed"] = {"suite": tail, "suite_passes": suite_ok, "demo_exit_without_change": demo_clean, "demo_exit_with_change": demo_patched, "ok": confirmed}
            meta["caught_by"] = {"check": prop, **results}
            meta["ran"] = [f"scratch copy of /repo at HEAD + patch.diff; pytest ({tail}); demo.py without/with change (exit {demo_clean}/{demo_patched}); /verif/check {prop} --tier " + "/".join(results)]
            with open(os.path.join(sdir, "meta.json"), "w") as fd:
                json.dump(meta, fd, indent=1)
            print(f"{sid} [{prop}] confirmed={confirmed} (suite_ok={suite_ok} demo {demo_clean}->{demo_patched}) " + " ".join(f"{k}:{v['status']}({v.get('violating_observations')}/{v.get('of_runs')})" for k, v in results.items()) + f" {[s for r in results.values() for s in r['signatures']][:2]} ({time.monotonic() - t0:.0f}s)", flush=True)
            shutil.rmtree(root, ignore_errors=True)
    finally:
        shutil.rmtree(base, ignore_errors=True)
    print(f"seeded: missed={missed}")
    return 0 if not missed else 1


def main(argv: List[str]) -> int:
    if argv and argv[0] == "import":
        return do_import(argv[1:])
    if argv and argv[0] == "run":
        return do_run(argv[1:])
    print(__doc__)
    return 2


_ = re

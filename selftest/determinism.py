"""Determinism self-test.

For every check: N run indices are executed in four separate fresh interpreters
-- PYTHONHASHSEED 0 forward, PYTHONHASHSEED 0 in reverse order (a different
warm-up history, as a different worker assignment would give), a second
PYTHONHASHSEED forward and reverse -- and the per-run event-log digests are
compared.  Any difference is a harness error (exit 3).

    check selftest determinism [--n 200] [C14 C16 ...]
"""

import json
import os
import subprocess
import sys
from concurrent.futures import ThreadPoolExecutor

VERIF = os.path.dirname(os.path.dirname(os.path.abspath(__file__)))


def _digests(modname, tier, lo, hi, hashseed, rev):
    env = dict(os.environ)
    env["PYTHONHASHSEED"] = str(hashseed)
    env.pop("VERIF_REEXEC", None)
    cmd = [sys.executable, "-B", os.path.join(VERIF, "check"), "selftest", "digests", modname, tier, str(lo), str(hi)] + (["rev"] if rev else [])
    p = subprocess.run(cmd, capture_output=True, text=True, env=env, timeout=3000, check=False)
    for ln in p.stdout.splitlines():
        if ln.startswith("DIGESTS "):
            return json.loads(ln[8:])
    raise RuntimeError(f"digest run failed: {p.stdout[-500:]} {p.stderr[-1500:]}")


def main(argv):
    n = 200
    props = []
    it = iter(argv)
    for a in it:
        if a == "--n":
            n = int(next(it))
        else:
            props.append(a)
    sys.path.insert(0, VERIF)
    checks = {"C14": "checks.c14_history", "C16": "checks.c16_iterators", "C17": "checks.c17_orderings", "C18": "checks.c18_bounds", "C20": "checks.c20_cli"}
    props = props or sorted(checks)
    bad = 0
    jobs = []
    # slices so that 16 interpreters run at once; each slice is run 4 ways
    with ThreadPoolExecutor(max_workers=16) as ex:
        for p in props:
            step = max(1, n // 4)
            for lo in range(0, n, step):
                hi = min(n, lo + step)
                # offset past the corpus section of C17 as well as inside it
                for variant in ((0, False), (0, True), (4242, False), (4242, True)):
                    jobs.append((p, lo, hi, variant, ex.submit(_digests, checks[p], "quick", lo, hi, variant[0], variant[1])))
        results = {}
        for p, lo, hi, variant, fut in jobs:
            results.setdefault((p, lo, hi), {})[variant] = fut.result()
    for (p, lo, hi), by in sorted(results.items()):
        ref = by[(0, False)]
        for variant, d in by.items():
            diff = [k for k in ref if ref[k] != d.get(k)]
            if diff:
                bad += 1
                print(f"DETERMINISM MISMATCH {p} runs {lo}..{hi} variant hashseed={variant[0]} reverse={variant[1]}: indices {diff[:10]}")
    total = sum(len(by[(0, False)]) for by in results.values())
    print(f"determinism: {total} runs x 4 interpreters over {props}: {'OK' if not bad else str(bad) + ' mismatching slices'}")
    return 0 if not bad else 3

"""False-alarm self-test: behaviour-preserving (or behaviour-changing but property-
preserving) rewrites of the library that every check must let pass.

The mutants and the seeded changes show that the checks *catch*; these show that
they do not demand more than the properties state.  Each benign change is applied
to a scratch copy of /repo (outside /repo and /verif, removed afterwards); the
repository's own test suite must still pass, and every named check must exit 0
with no VIOLATION line at its quick tier.

    check selftest benign [ids...]

Development-time gate; not part of quick/thorough.
"""

from __future__ import annotations

import json
import os
import shutil
import subprocess
import sys
import tempfile
import time
from typing import Callable
from typing import Dict
from typing import List
from typing import Tuple

from .mutants import run_tests

VERIF = os.path.dirname(os.path.dirname(os.path.abspath(__file__)))
REPO = "/repo"
P = "jsonpath_rfc9535/"

Edit = Tuple[str, str, str]
BENIGN: Dict[str, Dict[str, object]] = {}


def ben(bid: str, checks: List[str], what: str, edits: List[Edit]) -> None:
    BENIGN[bid] = {"checks": checks, "what": what, "edits": edits}


ALL_ = "*"  # in an edit: replace every occurrence

# ---------------------------------------------------------------------------
ben("B1", ["C17", "C18", "C14", "C16"], "the library imports the random functions by name (from random import shuffle, randrange)", [
    (P + "segments.py", "import random\n", "from random import randrange\nfrom random import shuffle\n"),
    (P + "segments.py", "random.randrange(", "randrange("),
    (P + "segments.py", "random.shuffle(", "shuffle("),
    (P + "selectors.py", "import random\n", "from random import shuffle\n"),
    (P + "selectors.py", ALL_ + "random.shuffle(", "shuffle("),
])
ben("B2", ["C20"], "CLI: exit status 2 for every failure and reworded diagnostics", [
    (P + "cli.py", ALL_ + "sys.exit(1)", "sys.exit(2)"),
    (P + "cli.py", 'f"syntax error: {err}\\n"', 'f"jsonpath-rfc9535: invalid query: {err}\\n"'),
    (P + "cli.py", 'f"target document json decode error: {err}\\n"', 'f"jsonpath-rfc9535: cannot read the document: {err}\\n"'),
])
ben("B3", ["C20"], "CLI: the output file is opened only once there is a result to write (a failure leaves an existing file untouched); output ends with a newline", [
    (P + "cli.py", '        type=argparse.FileType(mode="w"),\n        default=sys.stdout,', '        default=None,'),
    (P + "cli.py", "    args.output.write(result)\n", '    if args.output is None or args.output == "-":\n        sys.stdout.write(result + "\\n")\n    else:\n        with open(args.output, "w", encoding="utf-8") as fd:\n            fd.write(result + "\\n")\n'),
])
ben("B4", ["C20"], "CLI: --pretty indents by four, compact output has no blank after separators; the document is read as text and parsed with json.loads", [
    (P + "cli.py", "INDENT = 2\n", "INDENT = 4\n"),
    (P + "cli.py", "        result = json.dumps(values, indent=indent)\n", '        result = json.dumps(values, indent=indent) if indent else json.dumps(values, separators=(",", ":"))\n'),
    (P + "cli.py", "        data = json.load(args.file)\n", "        data = json.loads(args.file.read())\n"),
])
ben("B5", ["C17", "C18"], "nondeterministic walk: the frontier index comes from random.random(), object members are ordered with random.sample", [
    (P + "segments.py", "            idx = random.randrange(len(frontier))  # noqa: S311\n", "            idx = min(int(random.random() * len(frontier)), len(frontier) - 1)  # noqa: S311\n"),
    (P + "segments.py", "        items = list(node.value.items())\n        random.shuffle(items)\n", "        items = random.sample(list(node.value.items()), len(node.value))\n"),
    (P + "selectors.py", ALL_ + "                _members = list(node.value.items())\n                random.shuffle(_members)\n", "                _members = random.sample(list(node.value.items()), len(node.value))\n"),
])
ben("B6", ["C17"], "nondeterministic member order by repeated random.choice (selection without replacement)", [
    (P + "segments.py", "        items = list(node.value.items())\n        random.shuffle(items)\n", "        pool = list(node.value.items())\n        items = []\n        while pool:\n            pick = random.choice(pool)\n            pool.remove(pick)\n            items.append(pick)\n"),
])
ben("B7", ["C18", "C17", "C16"], "deterministic walk with an explicit stack of (node, depth) pairs instead of sibling iterators", [
    (P + "segments.py",
     "        stack: List[Iterator[JSONPathNode]] = [iter((node,))]\n\n        while stack:\n            for _node in stack[-1]:\n                if depth + len(stack) - 1 > self.env.max_recursion_depth:\n                    raise JSONPathRecursionError(\n                        \"recursion limit exceeded\", token=self.token\n                    )\n\n                yield _node\n                stack.append(_container_children(_node))\n                break\n            else:\n                stack.pop()\n",
     "        todo = [(node, depth)]\n\n        while todo:\n            _node, _depth = todo.pop()\n            if _depth > self.env.max_recursion_depth:\n                raise JSONPathRecursionError(\n                    \"recursion limit exceeded\", token=self.token\n                )\n\n            yield _node\n            todo.extend(\n                (child, _depth + 1) for child in reversed(list(_container_children(_node)))\n            )\n"),
])
ben("B8", ["C14", "C16"], "per-environment cache of successfully compiled queries (the same text gives the same immutable query object)", [
    (P + "environment.py", "        self.setup_function_extensions()\n\n    def compile(", "        self.setup_function_extensions()\n        self._compiled = {}\n\n    def compile("),
    (P + "environment.py", "        tokens = tokenize(query)\n        stream = TokenStream(tokens)\n        return JSONPathQuery(env=self, segments=tuple(self.parser.parse(stream)))",
     "        cached = self._compiled.get(query)\n        if cached is not None:\n            return cached\n        tokens = tokenize(query)\n        stream = TokenStream(tokens)\n        compiled = JSONPathQuery(env=self, segments=tuple(self.parser.parse(stream)))\n        if len(self._compiled) < 128:\n            self._compiled[query] = compiled\n        return compiled"),
])
ben("B10", ["C16", "C14"], "compile() serialised by a per-environment re-entrant lock (held only while parsing, never across a yield)", [
    (P + "environment.py", "        self.setup_function_extensions()\n\n    def compile(", "        self.setup_function_extensions()\n        import threading\n\n        self._compile_lock = threading.RLock()\n\n    def compile("),
    (P + "environment.py", "        tokens = tokenize(query)\n        stream = TokenStream(tokens)\n        return JSONPathQuery(env=self, segments=tuple(self.parser.parse(stream)))",
     "        with self._compile_lock:\n            tokens = tokenize(query)\n            stream = TokenStream(tokens)\n            return JSONPathQuery(\n                env=self, segments=tuple(self.parser.parse(stream))\n            )"),
])
ben("B12", ["C20"], "CLI: a note on standard error when nothing matched (exit status 0, result still written)", [
    (P + "cli.py", "    indent = INDENT if args.pretty else None\n", '    if not values:\n        sys.stderr.write("note: the query selected nothing\\n")\n\n    indent = INDENT if args.pretty else None\n'),
])
ben("B13", ["C18", "C16", "C14"], "deterministic mode checks the nesting of the whole subtree before it yields anything (as nondeterministic mode does)", [
    (P + "segments.py", "        for node in nodes:\n            for _node in visitor(node):\n", "        for node in nodes:\n            if not self.env.nondeterministic:\n                for _ in self._visit(node):\n                    pass\n            for _node in visitor(node):\n"),
])
ben("B14", ["C16", "C14"], "finditer returns an itertools.chain object (lazy, but no close() and not a generator)", [
    (P + "query.py", "        for segment in self.segments:\n            nodes = segment.resolve(nodes)\n\n        return nodes\n", "        for segment in self.segments:\n            nodes = segment.resolve(nodes)\n\n        import itertools\n\n        return itertools.chain.from_iterable((nodes,))\n"),
])
ben("B16", ["C16", "C14"], "match() keeps compiled patterns in a correctly keyed memo: per thread, per function, keyed by the pattern", [
    (P + "function_extensions/match.py", "import regex as re\n", "import threading\n\nimport regex as re\n"),
    (P + "function_extensions/match.py", "class Match(FilterFunction):\n", "_LOCAL = threading.local()\n\n\nclass Match(FilterFunction):\n"),
    (P + "function_extensions/match.py", "            return bool(re.fullmatch(map_re(pattern), string))\n", "            memo = _LOCAL.__dict__.setdefault(\"memo\", {})\n            rx = memo.get(pattern)\n            if rx is None:\n                if len(memo) > 64:\n                    memo.clear()\n                rx = memo[pattern] = re.compile(map_re(pattern))\n            return bool(rx.fullmatch(string))\n"),
])
ben("B18", ["C17", "C18"], "the nondeterministic walk draws from a private random.Random instance seeded from random.getrandbits(64) at each evaluation", [
    (P + "segments.py", "        frontier: List[Deque[JSONPathNode]] = _nondeterministic_runs(root)\n\n        while frontier:\n            idx = random.randrange(len(frontier))  # noqa: S311\n", "        rng = random.Random(random.getrandbits(64))  # noqa: S311\n        frontier: List[Deque[JSONPathNode]] = _nondeterministic_runs(root)\n\n        while frontier:\n            idx = rng.randrange(len(frontier))\n"),
])
ben("B19", ["C17", "C18"], "the nondeterministic walk draws from a private random.Random() seeded by the system at each evaluation", [
    (P + "segments.py", "        frontier: List[Deque[JSONPathNode]] = _nondeterministic_runs(root)\n\n        while frontier:\n            idx = random.randrange(len(frontier))  # noqa: S311\n", "        rng = random.Random()  # noqa: S311\n        frontier: List[Deque[JSONPathNode]] = _nondeterministic_runs(root)\n\n        while frontier:\n            idx = rng.randrange(len(frontier))\n"),
])
ben("B20", ["C17"], "member shuffles use a module-level random.SystemRandom() instance created on first use", [
    (P + "selectors.py", "import random\n", "import random\n\n_RNG = None\n\n\ndef _rng():  # noqa: ANN202\n    global _RNG  # noqa: PLW0603\n    if _RNG is None:\n        _RNG = random.SystemRandom()\n    return _RNG\n"),
    (P + "selectors.py", ALL_ + "                random.shuffle(_members)\n", "                _rng().shuffle(_members)\n"),
])
ben("B21", ["C20"], "CLI: the result is written as UTF-8 bytes to the output's underlying binary stream", [
    (P + "cli.py", "    args.output.write(result)\n", '    args.output.flush()\n    args.output.buffer.write(result.encode("utf-8"))\n    args.output.buffer.flush()\n'),
])
ben("B22", ["C20"], "CLI: standard output and error are reconfigured to UTF-8 with backslashreplace at start-up", [
    (P + "cli.py", "    parser = setup_parser()\n    args = parser.parse_args()\n", '    for stream in (sys.stdout, sys.stderr):\n        if hasattr(stream, "reconfigure"):\n            stream.reconfigure(encoding="utf-8", errors="backslashreplace")\n    parser = setup_parser()\n    args = parser.parse_args()\n'),
])
ben("B23", ["C20"], "CLI: -o and -f take plain paths; pathlib reads the document and writes the result", [
    (P + "cli.py", '        type=argparse.FileType(mode="w"),\n        default=sys.stdout,', '        default=None,'),
    (P + "cli.py", '        type=argparse.FileType(mode="rb"),\n        default=sys.stdin,', '        default=None,'),
    (P + "cli.py", "        data = json.load(args.file)\n", '        if args.file is None or args.file == "-":\n            data = json.load(sys.stdin)\n        else:\n            import pathlib\n\n            data = json.loads(pathlib.Path(args.file).read_bytes())\n'),
    (P + "cli.py", "    except (ValueError, RecursionError) as err:\n        # JSONDecodeError", "    except (ValueError, RecursionError, OSError) as err:\n        # JSONDecodeError"),
    (P + "cli.py", "    args.output.write(result)\n", '    if args.output is None or args.output == "-":\n        sys.stdout.write(result)\n    else:\n        import pathlib\n\n        pathlib.Path(args.output).write_text(result, encoding="utf-8")\n'),
])
ben("B24", ["C20"], "CLI: the query file is read as utf-8-sig (a byte-order mark at its start is not part of the query)", [
    (P + "cli.py", '        type=argparse.FileType(mode="r"),\n        help="Text file containing a JSONPath expression.",', '        type=argparse.FileType(mode="r", encoding="utf-8-sig"),\n        help="Text file containing a JSONPath expression.",'),
])
ben("B26", ["C16", "C14", "C17"], "pure helpers memoised with functools.lru_cache (the I-Regexp translation; a process-wide cache of a pure function of its argument)", [
    (P + "function_extensions/_pattern.py", "from typing import List\n\n\ndef map_re(pattern: str) -> str:\n", "from functools import lru_cache\nfrom typing import List\n\n\n@lru_cache(maxsize=64)\ndef map_re(pattern: str) -> str:\n"),
])
ben("B27", ["C17", "C18", "C16"], "module-level generators created at import time: random.SystemRandom() in segments.py, random.Random() in selectors.py", [
    (P + "segments.py", "import random\n", "import random\n\n_RNG = random.SystemRandom()\n"),
    (P + "segments.py", "random.randrange(", "_RNG.randrange("),
    (P + "segments.py", "random.shuffle(", "_RNG.shuffle("),
    (P + "selectors.py", "import random\n", "import random\n\n_RNG = random.Random()\n"),
    (P + "selectors.py", ALL_ + "random.shuffle(", "_RNG.shuffle("),
])


# independently written property-preserving changes: /verif/benign/<id>/{patch.diff, meta.json}
BENIGN_DIR = os.path.join(VERIF, "benign")
if os.path.isdir(BENIGN_DIR):
    for _name in sorted(os.listdir(BENIGN_DIR)):
        _meta = os.path.join(BENIGN_DIR, _name, "meta.json")
        if os.path.exists(_meta):
            with open(_meta) as _fd:
                _m = json.load(_fd)
            BENIGN[_name] = {"checks": _m["checks"], "what": _m["what"], "edits": [], "patch": os.path.join(BENIGN_DIR, _name, "patch.diff")}


def apply_edits(root: str, edits: List[Edit]) -> None:
    for rel, old, new in edits:
        every = old.startswith(ALL_)
        if every:
            old = old[len(ALL_):]
        path = os.path.join(root, rel)
        with open(path) as fd:
            s = fd.read()
        if old not in s:
            raise RuntimeError(f"edit does not apply to {rel}: {old[:60]!r}")
        with open(path, "w") as fd:
            fd.write(s.replace(old, new) if every else s.replace(old, new, 1))


def main(argv: List[str]) -> int:
    ids = [a for a in argv if not a.startswith("--")] or sorted(BENIGN, key=lambda x: (not x[1:].isdigit(), int(x[1:]) if x[1:].isdigit() else 0, x))
    results: Dict[str, object] = {}
    base = tempfile.mkdtemp(prefix="verif-ben-")
    bad = []
    try:
        for bid in ids:
            b = BENIGN[bid]
            root = os.path.join(base, bid)
            subprocess.run(["rsync", "-a", "--exclude", ".git", "--exclude", "__pycache__", REPO + "/", root + "/"], check=True)
            try:
                if b.get("patch"):
                    pr = subprocess.run(["patch", "-p1", "--no-backup-if-mismatch", "-i", str(b["patch"])], cwd=root, capture_output=True, text=True, check=False)
                    if pr.returncode != 0:
                        raise RuntimeError("patch does not apply: " + pr.stdout[-300:])
                apply_edits(root, b["edits"])  # type: ignore[arg-type]
            except RuntimeError as exc:
                print(f"{bid}: DOES-NOT-APPLY {exc}", flush=True)
                bad.append(bid)
                shutil.rmtree(root, ignore_errors=True)
                continue
            ok, tail = run_tests(root)
            per = {}
            for prop in b["checks"]:  # type: ignore[union-attr]
                t0 = time.monotonic()
                env = {**os.environ, "VERIF_REPO": root, "VERIF_MINIMISE_S": "5"}
                env.pop("VERIF_REEXEC", None)
                p = subprocess.run([sys.executable, "-B", os.path.join(VERIF, "check"), str(prop), "--tier", "quick"], capture_output=True, text=True, env=env, timeout=1800, check=False)
                viol = [ln for ln in p.stdout.splitlines() if ln.startswith("VIOLATION")]
                sig = [ln.strip() for ln in p.stdout.splitlines() if ln.strip().startswith(("signature:", "what:"))]
                status = "QUIET" if p.returncode == 0 and not viol else ("ALARM" if viol else f"HARNESS({p.returncode})")
                per[prop] = {"status": status, "detail": [x[:400] for x in sig[:4]], "wall_s": round(time.monotonic() - t0, 1)}
                if status != "QUIET":
                    bad.append(f"{bid}/{prop}")
                    if status.startswith("HARNESS"):
                        print(p.stdout[-1500:], p.stderr[-1500:])
                for ln in viol:
                    path = ln.split("replay=")[-1].strip()
                    if os.path.exists(path):
                        os.remove(path)
            results[bid] = {"what": b["what"], "suite_passes": ok, "suite": tail, "checks": per}
            # (the suite is informational here: a maintainer changing the exit status, say, changes
            # the tests that pin it along with it)
            print(f"{bid} suite_passes={ok} " + " ".join(f"{k}:{v['status']}" for k, v in per.items()) + f"  :: {b['what']}", flush=True)
            for k, v in per.items():
                if v["status"] != "QUIET":
                    for d in v["detail"]:
                        print("     " + d)
            shutil.rmtree(root, ignore_errors=True)
    finally:
        shutil.rmtree(base, ignore_errors=True)
    out = os.path.join(VERIF, "selftest", "benign_last.json")
    merged = {}
    if os.path.exists(out):
        with open(out) as fd:
            merged = json.load(fd)
    merged.update(results)
    with open(out, "w") as fd:
        json.dump(merged, fd, indent=1)
    print(f"benign: {len(ids)} changes; alarms or problems: {bad}")
    return 0 if not bad else 1

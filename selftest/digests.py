"""Print {run index: event-log digest} for a range of runs of one check (helper of selftest.determinism)."""

import importlib
import json

from dst import seeds


def main(argv):
    modname, tier, lo, hi = argv[0], argv[1], int(argv[2]), int(argv[3])
    rev = len(argv) > 4 and argv[4] == "rev"
    mod = importlib.import_module(modname)
    if hasattr(mod, "worker_init"):
        mod.worker_init()
    out = {}
    order = list(range(lo, hi))
    if rev:
        order.reverse()
    base = seeds.base_seed()
    for i in order:
        r = mod.run_one(seeds.run_seed(base, mod.PROPERTY, tier, i), tier, i)
        out[str(i)] = r["digest"]
    print("DIGESTS " + json.dumps(out, sort_keys=True))
    return 0

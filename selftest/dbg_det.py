import sys, json
from dst import seeds
import importlib
def main(argv):
    modname, tier, lo, hi = argv[0], argv[1], int(argv[2]), int(argv[3])
    mod = importlib.import_module(modname)
    if hasattr(mod, "worker_init"): mod.worker_init()
    order = range(lo, hi) if len(argv) < 5 else reversed(range(lo, hi))
    out = {}
    for i in order:
        s = seeds.run_seed(0, mod.PROPERTY, tier, i)
        r = mod.run_one(s, tier, i)
        out[i] = r["digest"]
    print(json.dumps(out))
    return 0

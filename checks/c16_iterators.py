"""C16 -- lazy result iterators are independent under any interleaving or
threading.

Part A (run index % 3 != 0): one thread, k live iterators; the schedule stream
decides who gets the next next()/close()/drop, when another iterator is opened
and when a complete find/compile runs on the shared environment in between.

Part B (run index % 3 == 0): 2-3 real threads run one at a time by the seeded
baton scheduler (dst.sched), pre-empted at any line (or opcode) of library
code; thread programs compile on a shared environment, apply shared compiled
queries to private and shared documents, and advance/abandon shared iterators.

Oracle, both parts: every iterator's yielded sequence is a prefix of (equal to,
if exhausted) its pristine solitary sequence; every call equals its solitary
run; documents unchanged.
"""

from __future__ import annotations

import copy
import os
from typing import Any
from typing import Dict
from typing import List

from dst import golden
from dst import machine
from dst import sched
from dst import seeds
from dst import simrandom
from dst.stepclock import StepBudgetExceeded
from gen import docs as D
from gen import queries as Q

from . import c14_history as H

PROPERTY = "C16"
LEVEL = "exploration"
STEP_UNIT = "part A: iterator actions; part B: line/opcode events in library frames (pre-emption points)"
RULE = (
    "Part A run = k in 1..4 iterators (same compiled query over different documents, same document under different "
    "queries, same or different environments) advanced under a seeded action schedule (uniform / round-robin / bursts "
    "/ starve-one / finish-in-reverse) with close, drop+gc, late opens and complete find/compile calls interleaved. "
    "Part B run = 2-3 baton-scheduled real threads x <= 6 ops each over shared compiled queries, shared iterators and "
    "a shared environment, pre-empted per line or per opcode under random-walk / PCT / stall / round-robin strategies. "
    "distinct_nontrivial counts distinct interleavings: hash of the action sequence with iterator positions (A) / of "
    "the (thread, site) switch sequence (B), among runs with >= 2 live iterators or >= 1 context switch."
)
ASSUMPTIONS = [
    "pre-emption happens at line or opcode boundaries of library frames; C code (regex, dict operations) is atomic, as "
    "under the GIL; the free-threaded build is not modelled",
    "two threads never execute the same generator at once (CPython forbids it): successive next() calls on one "
    "iterator may come from different threads",
    "the oracle is differential (pristine solitary run of the same spec through the same entry point)",
    "on nondeterministic environments a partial sequence is checked as a sub-multiset of the solitary result; where the "
    "solitary run ends in an exception only the exception class is compared",
]
COMPONENTS = {
    "real": ["whole library: lexer, parser, environment, query, segments, selectors, filter evaluator, built-in functions, regex"],
    "stub": ["thread scheduling (baton scheduler over real threads, pre-emption at sys.monitoring line/instruction events)", "iterator scheduling (harness)", "user function extensions (probes)", "random.* (SimRandom, pinned)"],
}


ISOLATE = "run"  # every run in its own fork of the (never used) worker: pristine process state


def worker_init() -> None:
    golden.start()


def export_state() -> Dict[str, Any]:
    return golden.export_new()


def import_state(st: Dict[str, Any]) -> None:
    golden.import_new(st)


def plan(tier: str) -> Dict[str, Any]:
    if tier == "thorough":
        return {"runs": 400_000, "chunk": 80, "budget_s": 780, "chunk_hard_s": 900, "minimise_s": 120}
    return {"runs": 5_600, "chunk": 40, "budget_s": 50, "chunk_hard_s": 300, "minimise_s": 45}


# ---------------------------------------------------------------------------
# workload pieces shared by A and B
# ---------------------------------------------------------------------------
SUSPEND_QUERIES = H.SUSPEND_QUERIES


def _pool(rng, tier: str):
    """Environments (specs), queries, documents drawn so that iterators collide."""
    setup: List[Dict[str, Any]] = []
    ndocs = rng.choice((1, 2, 2, 3))
    docs = []
    for i in range(ndocs):
        tree = D.random_tree(rng, max_nodes=rng.choice((8, 16, 30, 40)), max_depth=rng.choice((3, 4, 6)), p_dict=rng.choice((0.3, 0.6)))
        if i > 0 and rng.random() < 0.3:
            # same shape, different content: what a stale context would confuse
            tree = _perturb(rng, copy.deepcopy(docs_json[0]))
        setup.append({"op": "new_doc", "id": f"d{i}", "spec": {"json": tree}})
        docs.append(f"d{i}")
        if i == 0:
            docs_json = [tree]
    if rng.random() < 0.4:
        # values sharing objects by identity: a document's own member, or a wrapper around it
        did = f"d{len(docs)}"
        r3 = rng.random()
        if r3 < 0.45:
            setup.append({"op": "new_doc", "id": did, "spec": H.graft_spec(rng, "d0", docs_json[0])})
        elif r3 < 0.75:
            setup.append({"op": "new_doc", "id": did, "spec": {"member_of": "d0", "pick": rng.randrange(64)}})
        else:
            setup.append({"op": "new_doc", "id": did, "spec": {"wrap": "d0", "as": rng.choice(("list", "dict"))}})
        docs.append(did)
    envspecs: Dict[str, Dict[str, Any]] = {"module": {"module": True}}
    for i in range(rng.choice((1, 1, 2))):
        spec: Dict[str, Any] = {"funcs": []}
        if rng.random() < 0.4:
            spec["setup"] = [[rng.choice(H.FNAMES), H.gen_fspec(rng)]]
        if rng.random() < 0.15:
            spec["attrs"] = {"nondeterministic": True}
            if rng.random() < 0.4:
                # ... with a small limit too: some evaluations must raise, whatever else is going on
                spec["attrs"]["max_recursion_depth"] = rng.choice((2, 3, 4))
        elif rng.random() < 0.15:
            spec["attrs"] = {"max_recursion_depth": rng.choice((2, 3, 4))}
        setup.append({"op": "new_env", "id": f"e{i}", "spec": copy.deepcopy(spec)})
        envspecs[f"e{i}"] = spec
    envs = sorted(envspecs)
    queries = []
    fam = rng.random()
    if fam < 0.42:
        queries.extend(H.query_family(rng, rng.choice((2, 3))))
    elif fam < 0.52:
        queries.extend(H.near_equal_family(rng, rng.choice((2, 3))))
    if queries:
        # a family is compiled on ONE environment (what is shared by accident is shared there)
        one = rng.choice(envs)
        envs = [one] * 3 + envs
    for _ in range(rng.choice((1, 2, 3)) if not queries else rng.choice((0, 1))):
        if rng.random() < 0.45:
            queries.append(rng.choice(SUSPEND_QUERIES))
        else:
            e = rng.choice(envs)
            f = H._features_for(envspecs[e], rng)
            f.filters = True
            queries.append(Q.render(Q.gen_query(rng, f, 0, 1)))
    return setup, docs, envs, envspecs, queries


_perturb = H.perturb


# ---------------------------------------------------------------------------
# Part A
# ---------------------------------------------------------------------------
def gen_shared_candidates(rng, sched_rng) -> Dict[str, Any]:
    """Two DIFFERENT documents built around some of the same objects, one compiled query whose
    filter judges those objects against a scalar elsewhere in the root, and a sweep: at every
    suspension point of the iterator over the first document a fresh iterator over the second is
    started.  (What an evaluation remembers about an object must not outlive the root it was
    judged under.)"""
    def rec():
        return {"a": rng.randint(0, 3), "b": rng.randint(0, 3)}

    items = [rec() for _ in range(rng.randint(2, 4))]
    doc_a = {"a": items, "b": rng.randint(0, 3), "c": rng.randint(0, 3), "d": rng.randint(0, 3)}
    doc_b = {"a": [rec() for _ in items], "b": rng.randint(0, 3), "c": rng.randint(0, 3), "d": rng.randint(0, 3)}
    share = [["a", 0]] + ([["a", 1]] if rng.random() < 0.4 else []) + ([["a"]] if rng.random() < 0.2 else [])
    q = rng.choice(("$.a[?@.a == $.b]", "$.a[?@.b != $.c]", "$..[?@.a == $.c]", "$.a[?@.a == $.b || @.b == $.d]", "$.a[?@.a < $.d]", "$..[?@.b == $.b]", "$.a[?!(@.a == $.c)]"))
    ops = [
        {"op": "new_doc", "id": "d0", "spec": {"json": doc_a}},
        {"op": "new_doc", "id": "d1", "spec": {"graft_of": "d0", "json": doc_b, "share": share}},
        {"op": "new_env", "id": "e0", "spec": {"funcs": []}},
        {"op": "compile", "id": "c0", "env": rng.choice(("e0", "module")), "q": q},
        {"op": "iter_open", "id": "sa", "c": "c0", "doc": "d0"},
    ]
    for k in range(rng.randint(2, 6)):
        ops.append({"op": "iter_next", "it": "sa", "n": 1})
        ops.append({"op": "iter_open", "id": f"sb{k}", "c": "c0", "doc": "d1"})
        ops.append({"op": "iter_next", "it": f"sb{k}", "n": sched_rng.choice((1, 2, 5))})
        if sched_rng.random() < 0.4:
            ops.append({"op": sched_rng.choice(("iter_close", "iter_drop")), "it": f"sb{k}"})
    return {"part": "A", "knobs": {"regex_maxcache": None}, "ops": ops, "strategy": "shared-candidates"}


def gen_family_cross(rng, sched_rng) -> Dict[str, Any]:
    """DIFFERENT compiled queries of ONE environment built around a textually equal sub-query
    (what "intern equal sub-expressions" would share), each iterated over its OWN document (same
    shape, other content), the iterators advanced in turn: what one evaluation leaves on a shared
    expression node is what the other finds there."""
    e = rng.choice(H.SHARED_SUBEXPR[:8])  # the root-referencing ones
    frames = list(H.SHARED_FRAMES)
    rng.shuffle(frames)
    qs = [f.format(e=e) for f in frames[: rng.choice((2, 2, 3))]]
    base = D.random_tree(rng, max_nodes=rng.choice((12, 20, 30)), max_depth=rng.choice((3, 4)), p_dict=0.6)
    if not isinstance(base, (list, dict)):
        base = {"a": [base, {"a": 1}], "b": {"a": 2}}
    ops: List[Dict[str, Any]] = [{"op": "new_env", "id": "e0", "spec": {"funcs": []}}]
    env = rng.choice(("e0", "e0", "module"))
    for i, q in enumerate(qs):
        if i == 0:
            tree = base
        elif rng.random() < 0.6:
            # another shape altogether: counts and existence differ, not just values
            tree = D.random_tree(rng, max_nodes=rng.choice((4, 12, 30)), max_depth=rng.choice((2, 3, 4)), p_dict=0.6)
            if not isinstance(tree, (list, dict)):
                tree = [tree]
        else:
            tree = _perturb(rng, copy.deepcopy(base))
            if rng.random() < 0.5 and isinstance(tree, dict):
                tree = {**tree, rng.choice(("a", "b")): [1, {"a": rng.randint(0, 9), "b": [rng.randint(0, 9)]}, 2]}
        ops.append({"op": "new_doc", "id": f"d{i}", "spec": {"json": tree}})
        ops.append({"op": "compile", "id": f"c{i}", "env": env, "q": q})
    live = []
    for i in range(len(qs)):
        ops.append({"op": "iter_open", "id": f"i{i}", "c": f"c{i}", "doc": f"d{i}"})
        live.append(f"i{i}")
        if sched_rng.random() < 0.5:
            ops.append({"op": "iter_next", "it": f"i{i}", "n": 1})
    for a in range(sched_rng.choice((6, 12, 24))):
        ops.append({"op": "iter_next", "it": live[a % len(live)] if sched_rng.random() < 0.7 else sched_rng.choice(live), "n": sched_rng.choice((1, 1, 2))})
        if sched_rng.random() < 0.1:
            i = sched_rng.randrange(len(qs))
            ops.append({"op": "apply", "c": f"c{i}", "doc": f"d{sched_rng.randrange(len(qs))}", "entry": sched_rng.choice(H.ENTRIES)})
    return {"part": "A", "knobs": {"regex_maxcache": None}, "ops": ops, "strategy": "family-cross"}


def gen_abandon_recycle(rng, sched_rng) -> Dict[str, Any]:
    """An iterator of a compiled query with a root-referencing filter is ABANDONED half-way
    (closed, or dropped and collected); then the document goes too and the next one comes to lie
    where it was -- or the caller changes the same document in place -- and the same compiled query
    is evaluated over it, lazily or eagerly, while a sibling iterator may still be suspended.
    (What clean-up code skips when a generator is closed instead of exhausted.)"""
    roots = [x for x in SUSPEND_QUERIES if "$" in x[1:]]
    q = rng.choice(roots) if rng.random() < 0.8 else rng.choice(("$.a[?@.a < $.d || !$.d]", "$[?@ == $.zz || !$.zz]", "$..[?!$.b && @.a]", "$.a[?count($.c.*) == 0 && @.a]"))
    tree = D.random_tree(rng, max_nodes=rng.choice((8, 16, 30)), max_depth=rng.choice((3, 4)), p_dict=0.7)
    if not isinstance(tree, dict):
        tree = {"a": tree if isinstance(tree, list) else [tree, {"a": 1}], "b": 2}
    # the first document lacks what the second has (and the other way round): the root queries
    # of the filter select nothing in one and something in the other
    first = {k: v for k, v in tree.items() if k not in ("b", "d", "c")} or {"a": [{"a": 1, "b": 2}, {"a": 3}]}
    second = {**_perturb(rng, copy.deepcopy(first)), "b": rng.randint(0, 3), "d": rng.randint(0, 9), "c": {"a": 1}}
    if rng.random() < 0.3:
        first, second = second, first
    env = rng.choice(("e0", "module"))
    ops: List[Dict[str, Any]] = [
        {"op": "new_env", "id": "e0", "spec": {"funcs": []}},
        {"op": "new_doc", "id": "x0", "spec": {"json": first}},
        {"op": "compile", "id": "c0", "env": env, "q": q},
    ]
    if rng.random() < 0.3:
        ops.append({"op": "new_doc", "id": "d9", "spec": {"json": _perturb(rng, copy.deepcopy(second))}})
        ops.append({"op": "iter_open", "id": "keep", "c": "c0", "doc": "d9"})
        ops.append({"op": "iter_next", "it": "keep", "n": 1})
    ops.append({"op": "iter_open", "id": "i0", "c": "c0", "doc": "x0"})
    ops.append({"op": "iter_next", "it": "i0", "n": sched_rng.choice((1, 1, 2))})
    ops.append({"op": sched_rng.choice(("iter_close", "iter_drop")), "it": "i0"})
    if rng.random() < 0.65:
        ops.append({"op": "forget_doc", "doc": "x0"})
        ops.append({"op": "new_doc", "id": "d1", "spec": {"json": second}})
        victim = "d1"
    else:
        for key in ("b", "d", "c"):
            if (key in second) != (key in first):
                ops.append({"op": "mutate_doc", "doc": "x0", "path": [], "action": "set", "key": key, "value": second.get(key, first.get(key))} if key in second else {"op": "mutate_doc", "doc": "x0", "path": [], "action": "del", "key": key})
        victim = "x0"
    if sched_rng.random() < 0.5:
        ops.append({"op": "apply", "c": "c0", "doc": victim, "entry": sched_rng.choice(H.ENTRIES)})
    else:
        ops.append({"op": "iter_open", "id": "i1", "c": "c0", "doc": victim})
        ops.append({"op": "iter_next", "it": "i1", "n": 50})
    return {"part": "A", "knobs": {"regex_maxcache": None}, "ops": ops, "strategy": "abandon-recycle"}


def gen_orphan_gc(rng, sched_rng) -> Dict[str, Any]:
    """Half-consumed iterators are ORPHANED (the caller's last reference goes while they sit in a
    reference cycle), and a cyclic collection is made to happen at a drawn line INSIDE the next
    step of another, live iterator of the same compiled query over the same document: generator
    finalisers, finally blocks and weak-reference callbacks run in the middle of that step."""
    roots = [x for x in SUSPEND_QUERIES if "$" in x[1:]]
    q = rng.choice(roots) if rng.random() < 0.7 else rng.choice(SUSPEND_QUERIES)
    tree = D.random_tree(rng, max_nodes=rng.choice((10, 20, 30)), max_depth=rng.choice((3, 4)), p_dict=0.6)
    if not isinstance(tree, (list, dict)):
        tree = {"a": [tree, {"a": 1}], "b": 2}
    ops: List[Dict[str, Any]] = [
        {"op": "new_env", "id": "e0", "spec": {"funcs": []}},
        {"op": "new_doc", "id": "d0", "spec": {"json": tree}},
        {"op": "compile", "id": "c0", "env": rng.choice(("e0", "module")), "q": q},
        {"op": "iter_open", "id": "live", "c": "c0", "doc": "d0"},
    ]
    for k in range(rng.choice((8, 12, 20))):
        ops.append({"op": "iter_open", "id": f"o{k}", "c": "c0", "doc": "d0"})
        ops.append({"op": "iter_next", "it": f"o{k}", "n": sched_rng.choice((1, 1, 2))})
        ops.append({"op": "iter_orphan", "it": f"o{k}"})
        ops.append({"op": "arm_gc", "k": sched_rng.choice((sched_rng.randint(1, 30), sched_rng.randint(1, 80), sched_rng.randint(1, 80), sched_rng.randint(1, 400)))})
        if sched_rng.random() < 0.75:
            ops.append({"op": "iter_next", "it": "live", "n": sched_rng.choice((1, 1, 2, 5))})
        else:
            ops.append({"op": "apply", "c": "c0", "doc": "d0", "entry": sched_rng.choice(H.ENTRIES)})
    ops.append({"op": "iter_next", "it": "live", "n": 100})
    return {"part": "A", "knobs": {"regex_maxcache": None}, "ops": ops, "strategy": "orphan-gc"}


def gen_reenter_same(rng, sched_rng) -> Dict[str, Any]:
    """A filter whose function call takes several arguments -- a literal among them -- and one of
    those arguments is a call of a user function that evaluates the SAME compiled query again
    (completely, over other data) before it returns: the nested evaluation must leave the outer
    one, suspended in the middle of collecting its arguments, exactly as it was."""
    w = {"args": ["V", "V", "V"], "ret": rng.choice(("L", "V")), "behav": rng.choice(("first", "shape"))}
    r = {"args": ["V"], "ret": "V", "behav": "reenter_same", "rdoc": [{"a": rng.randint(0, 9), "b": rng.randint(0, 9)} for _ in range(rng.randint(2, 4))]}
    cmp_ = "" if w["ret"] == "L" else " == " + str(rng.randint(0, 9))
    q = rng.choice(("$[?w(@.a, r(@.b), 0)%s]", "$[?w(@.a, r(@), 1)%s]", "$..[?w(@.a, r(@.b), 'x')%s]", "$[?w(r(@.b), @.a, 0)%s]", "$[?w(0, @.a, r(@.b))%s]", "$[?w(@.a, @.b, r(@))%s]")) % cmp_
    doc = [{"a": rng.randint(0, 9), "b": rng.randint(0, 9)} for _ in range(rng.randint(3, 7))]
    ops: List[Dict[str, Any]] = [
        {"op": "new_env", "id": "e0", "spec": {"funcs": [["w", w], ["r", r]]}},
        {"op": "new_doc", "id": "d0", "spec": {"json": doc}},
        {"op": "new_doc", "id": "d1", "spec": {"json": {"x": doc, "a": 1, "b": 2}}},
        {"op": "compile", "id": "c0", "env": "e0", "q": q},
    ]
    for _ in range(rng.choice((1, 2, 3))):
        if sched_rng.random() < 0.5:
            ops.append({"op": "apply", "c": "c0", "doc": sched_rng.choice(("d0", "d1")), "entry": sched_rng.choice(H.ENTRIES)})
        else:
            ops.append({"op": "iter_open", "id": f"i{len(ops)}", "c": "c0", "doc": sched_rng.choice(("d0", "d1"))})
            ops.append({"op": "iter_next", "it": ops[-1]["id"], "n": sched_rng.choice((1, 2, 50))})
    return {"part": "A", "knobs": {"regex_maxcache": None}, "ops": ops, "strategy": "reenter-same"}


def gen_a(rng, sched_rng, tier: str) -> Dict[str, Any]:
    r0 = rng.random()
    if 0.80 < r0 <= 0.86:
        return gen_orphan_gc(rng, sched_rng)
    if 0.86 < r0 <= 0.90:
        return gen_reenter_same(rng, sched_rng)
    if r0 > 0.93:
        return gen_abandon_recycle(rng, sched_rng)
    if r0 < 0.06:
        return gen_shared_candidates(rng, sched_rng)
    if r0 < 0.15:
        return gen_family_cross(rng, sched_rng)
    setup, docs, envs, envspecs, queries = _pool(rng, tier)
    ops = list(setup)
    compiled = []
    for i, q in enumerate(queries):
        ops.append({"op": "compile", "id": f"c{i}", "env": rng.choice(envs), "q": q})
        compiled.append(f"c{i}")
    kmax = 4 if tier == "thorough" else 3
    k = rng.randint(1, kmax)
    iters: List[str] = []

    def open_one() -> None:
        iid = f"i{len(iters)}"
        if rng.random() < 0.75:
            ops.append({"op": "iter_open", "id": iid, "c": rng.choice(compiled), "doc": rng.choice(docs)})
        else:
            ops.append({"op": "iter_open", "id": iid, "env": rng.choice(envs), "q": rng.choice(queries), "doc": rng.choice(docs)})
        iters.append(iid)

    for _ in range(k):
        open_one()
    strategy = sched_rng.choice(("uniform", "uniform", "round-robin", "bursts", "starve", "reverse", "sweep", "sweep"))
    if strategy == "sweep":
        # at EVERY suspension point of one iterator, a fresh iterator of the same compiled query
        # over another value (a member of the first document, a wrapper, a same-shaped document)
        # is started and advanced a little: whatever the first left on shared objects when it
        # suspended is what the second meets first
        c = sched_rng.choice(compiled)
        d_a = docs[0]
        others = [d for d in docs if d != d_a] or docs
        ops.append({"op": "iter_open", "id": "sa", "c": c, "doc": d_a})
        for k in range(sched_rng.choice((6, 12, 25))):
            ops.append({"op": "iter_next", "it": "sa", "n": 1})
            bid = f"sb{k}"
            ops.append({"op": "iter_open", "id": bid, "c": c, "doc": sched_rng.choice(others)})
            ops.append({"op": "iter_next", "it": bid, "n": sched_rng.choice((1, 2, 3))})
            if sched_rng.random() < 0.5:
                ops.append({"op": sched_rng.choice(("iter_close", "iter_drop")), "it": bid})
        return {"part": "A", "knobs": {"regex_maxcache": rng.choice((1, 2, None))}, "ops": ops, "strategy": strategy}
    n_actions = sched_rng.choice((4, 8, 16, 30, 60))
    starved = sched_rng.choice(iters)
    for a in range(n_actions):
        r = sched_rng.random()
        if r < 0.05 and len(iters) < kmax + 1:
            open_one()
            continue
        if r < 0.12:
            ops.append({"op": sched_rng.choice(("iter_close", "iter_drop")), "it": sched_rng.choice(iters)})
            continue
        if r < 0.22:
            # a complete call on the shared objects right now
            if sched_rng.random() < 0.5:
                ops.append({"op": "apply", "c": sched_rng.choice(compiled), "doc": sched_rng.choice(docs), "entry": sched_rng.choice(H.ENTRIES)})
            elif sched_rng.random() < 0.5:
                ops.append({"op": "compile", "id": f"c{len(compiled)}", "env": sched_rng.choice(envs), "q": sched_rng.choice(queries + [rng.choice(Q.INVALID_TEXTS)])})
                compiled.append(f"c{len(compiled)}")
            else:
                ops.append({"op": "env_call", "env": sched_rng.choice(envs), "q": sched_rng.choice(queries), "doc": sched_rng.choice(docs), "entry": "find"})
            continue
        if strategy == "uniform":
            it = sched_rng.choice(iters)
            n = 1
        elif strategy == "round-robin":
            it = iters[a % len(iters)]
            n = 1
        elif strategy == "bursts":
            it = sched_rng.choice(iters)
            n = sched_rng.choice((2, 3, 5))
        elif strategy == "starve":
            others = [x for x in iters if x != starved] or iters
            it = sched_rng.choice(others)
            n = 1
        else:  # reverse: later iterators first
            it = iters[-1 - (a % len(iters))]
            n = sched_rng.choice((1, 1, 2))
        ops.append({"op": "iter_next", "it": it, "n": n})
    return {"part": "A", "knobs": {"regex_maxcache": rng.choice((1, 2, None))}, "ops": ops, "strategy": strategy}


# ---------------------------------------------------------------------------
# Part B
# ---------------------------------------------------------------------------
FUNCTION_QUERIES = [
    "$..[?match(@, 'a.*')]", "$..[?search(@, 'b')]", "$[?match(@.a, '[ab]+')]", "$..[?match(@.b, 'a')]", "$..[?search(@.a, 'c')]",
    "$..[?match(@, 'ab?c?')]", "$[*][?search(@, 'x|a')]", "$..[?match(@, '[^a]')]", "$..[?search(@, 'a{2}')]", "$..[?match(@, '.')]",
    "$..[?length(@) > 1]", "$..[?count(@.*) > 1]", "$..[?value(@..a) == 'a']", "$..[?match(@.a, 'a.*') || search(@.b, 'b')]",
    "$..[?search(@, 'a') && !match(@, 'a')]", "$[?match(@, $.a)]", "$..[?search(@, 'ab')]", "$..[?match(@, 'b.*')]",
]


def _stringify(rng, v: Any) -> Any:
    if isinstance(v, list):
        return [_stringify(rng, x) for x in v]
    if isinstance(v, dict):
        return {k: _stringify(rng, x) for k, x in v.items()}
    if rng.random() < 0.7:
        return rng.choice(("a", "ab", "abc", "b", "ba", "aab", "x", "c", "bb", ""))
    return v


def _quoted_query(rng, t: int) -> str:
    """Bracketed names and string literals (thread-unique, some long, some with escapes):
    what the lexer/parser has to decode character by character."""
    names = [rng.choice(Q.KEYS), f"key-{t}-" + rng.choice("xyz") * rng.choice((1, 4, 12)), "a b", "q\\n" + str(t), "é" * rng.choice((1, 3))]
    parts = ["$"]
    for _ in range(rng.randint(1, 3)):
        r = rng.random()
        n1, n2 = rng.choice(names), rng.choice(names)
        if r < 0.4:
            parts.append(f"['{n1}']" if rng.random() < 0.6 else f'["{n1}"]')
        elif r < 0.6:
            parts.append(f"['{n1}', \"{n2}\"]")
        elif r < 0.85:
            parts.append(f"[?@['{n1}'] == '{n2}' || @.a == \"{n1}\"]")
        else:
            parts.append(f"..[?match(@['{n1}'], '{rng.choice(Q.PATTERNS)}')]")
    return "".join(parts)



def gen_b(rng, sched_rng, tier: str) -> Dict[str, Any]:
    setup, docs, envs, envspecs, queries = _pool(rng, tier)
    setup = list(setup)
    compiled = []
    for i, q in enumerate(queries):
        setup.append({"op": "compile", "id": f"c{i}", "env": rng.choice(envs), "q": q})
        compiled.append(f"c{i}")
    shared_iters = []
    for i in range(rng.choice((0, 1, 1, 2))):
        setup.append({"op": "iter_open", "id": f"i{i}", "c": rng.choice(compiled), "doc": rng.choice(docs)})
        shared_iters.append(f"i{i}")
    for _ in range(rng.choice((0, 0, 1, 2))):
        e = rng.choice([x for x in envs if x != "module"])
        setup.append({"op": "register", "env": e, "name": rng.choice(H.FNAMES), "fspec": H.gen_fspec(rng)})
    nthreads = rng.choice((2, 2, 3))
    programs: Dict[str, List[Dict[str, Any]]] = {}
    own_ids = 0
    storm = rng.random()
    compile_storm = storm < 0.3  # every thread compiles on ONE shared environment at the same time
    function_storm = 0.3 <= storm < 0.55  # every thread evaluates function-extension filters on ONE environment
    nondet_storm = 0.55 <= storm < 0.68  # every thread evaluates descendant/wildcard queries on ONE nondeterministic environment
    if nondet_storm:
        setup.append({"op": "new_env", "id": "en", "spec": {"funcs": [], "attrs": {"nondeterministic": True}}})
        ncompiled = []
        for i in range(rng.randint(2, 3)):
            q = rng.choice(("$..*", "$..[*]", "$..[?@.a]", "$[*]", "$..a", "$..[*, *]", "$[*]..[*]", "$..[?@ == $[0]]", "$..[0]"))
            setup.append({"op": "compile", "id": f"n{i}", "env": "en", "q": q})
            ncompiled.append(f"n{i}")
    storm_env = rng.choice(envs)
    if function_storm:
        # string-rich documents and shared compiled queries that call match/search/length/count/value
        for i, did in enumerate(docs):
            op = next(o for o in setup if o["op"] == "new_doc" and o["id"] == did)
            if "json" in op["spec"]:
                op["spec"] = {"json": _stringify(rng, op["spec"]["json"])}
        fq = [rng.choice(FUNCTION_QUERIES) for _ in range(rng.randint(2, 4))]
        fcompiled = []
        for i, q in enumerate(fq):
            setup.append({"op": "compile", "id": f"f{i}", "env": storm_env, "q": q})
            fcompiled.append(f"f{i}")
    for t in range(nthreads):
        name = f"T{t}"
        prog: List[Dict[str, Any]] = []
        if compile_storm:
            for _ in range(rng.randint(2, 4)):
                own_ids += 1
                cid = f"t{own_ids}"
                r = rng.random()
                if r < 0.5:
                    q = _quoted_query(rng, t)
                elif r < 0.85:
                    q = rng.choice(queries + SUSPEND_QUERIES)
                else:
                    q = rng.choice(Q.INVALID_TEXTS)
                prog.append({"op": "compile", "id": cid, "env": storm_env, "q": q})
                prog.append({"op": "apply", "c": cid, "doc": rng.choice(docs), "entry": rng.choice(H.ENTRIES)})
                if rng.random() < 0.4:
                    # ... and the same text once more right away (what an application calling
                    # env.find(text, data) in a loop does): "the last thing compiled" is this thread's
                    own_ids += 1
                    prog.append({"op": "compile", "id": f"t{own_ids}", "env": storm_env, "q": q})
                    prog.append({"op": "apply", "c": f"t{own_ids}", "doc": rng.choice(docs), "entry": rng.choice(H.ENTRIES)})
            programs[name] = prog
            continue
        if nondet_storm:
            for _ in range(rng.randint(3, 6)):
                prog.append({"op": "apply", "c": rng.choice(ncompiled), "doc": rng.choice(docs), "entry": rng.choice(("find", "find", "finditer"))})
            programs[name] = prog
            continue
        if function_storm:
            for _ in range(rng.randint(3, 6)):
                if rng.random() < 0.8:
                    prog.append({"op": "apply", "c": rng.choice(fcompiled), "doc": rng.choice(docs), "entry": rng.choice(H.ENTRIES)})
                else:
                    prog.append({"op": "env_call", "env": storm_env, "q": rng.choice(FUNCTION_QUERIES), "doc": rng.choice(docs), "entry": "find"})
            programs[name] = prog
            continue
        my_docs = list(docs)
        if rng.random() < 0.7:
            # a thread-private document (same shape as d0, different content)
            did = f"p{t}"
            base = next(o for o in setup if o["op"] == "new_doc" and "json" in o["spec"])["spec"]["json"]
            setup.append({"op": "new_doc", "id": did, "spec": {"json": _perturb(rng, copy.deepcopy(base))}})
            my_docs = [did, did, rng.choice(docs)]
        my_iters = list(shared_iters)
        for _ in range(rng.randint(1, 6)):
            r = rng.random()
            if r < 0.4:
                prog.append({"op": "apply", "c": rng.choice(compiled), "doc": rng.choice(my_docs), "entry": rng.choice(H.ENTRIES)})
            elif r < 0.6:
                own_ids += 1
                q = rng.choice(queries) if rng.random() < 0.75 else rng.choice(Q.INVALID_TEXTS)
                cid = f"t{own_ids}"
                prog.append({"op": "compile", "id": cid, "env": rng.choice(envs), "q": q})
                prog.append({"op": "apply", "c": cid, "doc": rng.choice(my_docs), "entry": "find"})
            elif r < 0.7:
                prog.append({"op": "env_call", "env": rng.choice(envs), "q": rng.choice(queries), "doc": rng.choice(my_docs), "entry": rng.choice(H.ENTRIES)})
            elif r < 0.9 and (my_iters or compiled):
                if my_iters and rng.random() < 0.7:
                    rr = rng.random()
                    if rr < 0.8:
                        prog.append({"op": "iter_next", "it": rng.choice(my_iters), "n": rng.choice((1, 1, 2, 4))})
                    else:
                        prog.append({"op": rng.choice(("iter_close", "iter_drop")), "it": rng.choice(my_iters)})
                else:
                    own_ids += 1
                    iid = f"j{own_ids}"
                    prog.append({"op": "iter_open", "id": iid, "c": rng.choice(compiled), "doc": rng.choice(my_docs)})
                    my_iters.append(iid)
                    if rng.random() < 0.5:
                        shared_iters.append(iid)  # later threads may advance it too
            else:
                # (no registration inside thread programs: an environment-level call
                # compiles against the registry *as it is when it compiles*, so a
                # concurrent registration legitimately changes its outcome)
                prog.append({"op": "env_call", "env": "module", "q": rng.choice(queries), "doc": rng.choice(my_docs), "entry": "find"})
        programs[name] = prog
    names = sorted(programs)
    return {
        "part": "B",
        "knobs": {"regex_maxcache": rng.choice((1, 2, None))},
        "setup": setup,
        "programs": programs,
        "strategy": sched.draw_strategy(sched_rng, names),
        "opcode": sched_rng.random() < 0.25 and not os.environ.get("VERIF_C16_LINE_ONLY"),  # pre-empt at every bytecode instruction instead of every line
        "sched_seed": sched_rng.getrandbits(48),
        "decisions": None,
    }


def execute_b(sc: Dict[str, Any], sseed: int):
    simr = simrandom.SimRandom(sseed)
    simrandom.install(simr)
    m = machine.Machine(sc.get("knobs"))
    sim = None
    try:
        for op in sc["setup"]:
            m.step(op)
        import random as _r

        sim = sched.Sim(_r.Random(sc["sched_seed"]), sc["strategy"], opcode=sc["opcode"], feed=sc.get("decisions"))
        for name in sorted(sc["programs"]):
            prog = sc["programs"][name]

            def body(prog: List[Dict[str, Any]] = prog, name: str = name) -> None:
                for op in prog:
                    m.step(op, actor=name)

            sim.spawn(name, body)
        sim.run()
        if isinstance(sim.aborted, sched.Deadlock):
            m._tl.label = "threads"
            m._violate("deadlock", str(sim.aborted))
        elif isinstance(sim.aborted, StepBudgetExceeded):
            m._tl.label = "threads"
            m._violate("no-progress", f"threads did not finish within {sim.step_cap} steps")
        else:
            for t in sim.threads.values():
                if t.exc is not None:
                    raise t.exc  # harness bug: programs catch everything the library raises
            # the final re-runs and the draining of live iterators also run on a simulated
            # thread: an iterator whose lock is owned by a thread that is gone must end the run
            # as a deadlock, not hang the harness
            err = sched.run_guarded(m.final_recheck)
            if isinstance(err, sched.Deadlock):
                m._tl.label = "final"
                m._violate("deadlock", f"re-running calls / draining live iterators after the threads finished blocks for ever: {err}")
            elif err is not None:
                raise err
    finally:
        simrandom.uninstall()
        m.close()
    return m, sim


def execute_a(sc: Dict[str, Any], sseed: int):
    simr = simrandom.SimRandom(sseed)
    simrandom.install(simr)
    try:
        m = machine.Machine(sc.get("knobs"))

        def body() -> None:
            for op in sc["ops"]:
                m.step(op)
            m.final_recheck()

        err = sched.run_guarded(body)
        if isinstance(err, sched.Deadlock):
            m._tl.label = "iterators"
            m._violate("deadlock", f"one thread, interleaved iterators: a call into the library blocks for ever: {err}")
        elif err is not None:
            raise err
        m.close()
        return m, None
    finally:
        simrandom.uninstall()


def _viol(m: machine.Machine, sc: Dict[str, Any], sseed: int, sim: Any) -> List[Dict[str, Any]]:
    out = []
    for v in m.violations:
        payload = {"scenario": sc, "sim_seed": sseed}
        if sim is not None:
            payload = {"scenario": {**sc, "decisions": [list(d) for d in sim.decisions]}, "sim_seed": sseed}
        out.append({"class": v["class"], "signature": f"C16:{sc['part']}:{v['class']}", "what": v["what"], "payload": payload})
    return out


def run_one(seed: int, tier: str, index: int) -> Dict[str, Any]:
    rng = seeds.stream(seed, "workload")
    srng = seeds.stream(seed, "schedule")
    sseed = seeds.stream(seed, "choices").getrandbits(48)
    st: Dict[str, int] = {}
    if index % 3 == 0:
        sc = gen_b(rng, srng, tier)
        m, sim = execute_b(sc, sseed)
        st.update(m.stats)
        st["runs_part_B_threads"] = 1
        st[f"B_strategy_{sc['strategy']['kind']}"] = 1
        st["B_granularity_instruction" if sc["opcode"] else "B_granularity_line"] = 1
        st["B_context_switches"] = max(0, len(sim.decisions) - 1)
        st["B_real_lock_blocks"] = sim.real_blocks
        for site, n in sim.site_counts.items():
            if site.startswith("probe:"):
                st[site.replace(":", "_")] = n
            elif "FilterSelector" in site or site.endswith(":resolve"):
                st["probe_switch_inside_resolve"] = st.get("probe_switch_inside_resolve", 0) + n
            elif site.endswith(":_visit") or "_nondeterministic" in site:
                st["probe_switch_inside_descendant_walk"] = st.get("probe_switch_inside_descendant_walk", 0) + n
            elif site.endswith(":evaluate"):
                st["probe_switch_inside_filter_evaluate"] = st.get("probe_switch_inside_filter_evaluate", 0) + n
            elif site.startswith("parse.py") or site.startswith("lex.py") or site.startswith("tokens.py"):
                st["probe_switch_inside_compile"] = st.get("probe_switch_inside_compile", 0) + n
        steps = sim.steps
        sig = seeds.digest(sim.switch_sites) if len(sim.decisions) > 1 else None
        digest = seeds.digest([m.events, sim.decisions])
        if sim.real_blocks:
            # The tree under test blocks in real locks: when the blocked thread
            # wakes up is the kernel's decision, not the simulator's, so this run
            # is judged (every op against its solitary run) but is not repeatable
            # and is left out of the determinism comparison.
            digest = "not-repeatable:real-lock"
            sig = None
            st["B_runs_not_repeatable_real_lock"] = 1
        sample = {"part": "B", "strategy": sc["strategy"], "opcode": sc["opcode"], "programs": {k: v[:4] for k, v in sc["programs"].items()}, "steps": sim.steps, "switches": len(sim.decisions) - 1, "first_switch_sites": sim.switch_sites[:6]} if index % 1500 == 0 else None
    else:
        sc = gen_a(rng, srng, tier)
        m, sim = execute_a(sc, sseed)
        st.update(m.stats)
        st["runs_part_A_iterators"] = 1
        st[f"A_strategy_{sc['strategy']}"] = 1
        steps = m.op_index + 1
        acts = [[e[0], e[1][:2] if isinstance(e[1], list) else e[1]] for e in m.events if e[0].startswith("iter")]
        sig = seeds.digest(acts) if m.stats["iters_opened"] >= 2 else None
        digest = seeds.digest(m.events)
        sample = {"part": "A", "strategy": sc["strategy"], "ops": [o for o in sc["ops"] if o["op"] not in ("new_doc",)][:14]} if index % 1501 == 1 else None
    return {"digest": digest, "sig": sig, "stats": st, "steps": steps, "violations": _viol(m, sc, sseed, sim)[:3], "sample": sample}


def replay(payload: Dict[str, Any]) -> List[Dict[str, Any]]:
    worker_init()
    sc = payload["scenario"]
    if sc["part"] == "A":
        m, sim = execute_a(sc, payload["sim_seed"])
    else:
        m, sim = execute_b(sc, payload["sim_seed"])
    return _viol(m, sc, payload["sim_seed"], sim)


def shrink_candidates(payload: Dict[str, Any]):
    sc = payload["scenario"]
    if sc["part"] == "A":
        h = {"history": {"knobs": sc.get("knobs"), "ops": sc["ops"]}, "sim_seed": payload["sim_seed"]}
        for cand in H.shrink_candidates(h):
            yield {"scenario": {**sc, "ops": cand["history"]["ops"], "knobs": cand["history"]["knobs"]}, "sim_seed": payload["sim_seed"]}
        return
    # Part B.  First the schedule: delete context switches (a removed switch
    # means "the current thread keeps running"); then ops and threads, which
    # invalidates step numbers -> fall back to the seeded strategy.
    dec = sc.get("decisions")
    if dec:
        n = len(dec)
        # most interleaving bugs need a handful of switches: first try keeping only a prefix of the
        # schedule (after it, whoever runs keeps running), then only a suffix, halving each time
        keep = n // 2
        while keep >= 1 and n > 8:
            yield {**payload, "scenario": {**sc, "decisions": dec[:keep]}}
            keep //= 2
        drop = n // 2
        while drop >= 1 and n > 8:
            yield {**payload, "scenario": {**sc, "decisions": dec[:1] + dec[1 + drop :]}}
            drop //= 2
        size = n // 2
        while size >= 1:
            for start in range(n - size, 0, -size):
                cand = dec[:start] + dec[start + size :]
                yield {**payload, "scenario": {**sc, "decisions": cand}}
            size //= 2
    for name in sorted(sc["programs"]):
        if len(sc["programs"]) > 2:
            progs = {k: v for k, v in sc["programs"].items() if k != name}
            yield {**payload, "scenario": {**sc, "programs": progs, "decisions": None}}
        prog = sc["programs"][name]
        for i in range(len(prog) - 1, -1, -1):
            progs = dict(sc["programs"])
            progs[name] = prog[:i] + prog[i + 1 :]
            yield {**payload, "scenario": {**sc, "programs": progs, "decisions": None}}
    for i in range(len(sc["setup"]) - 1, -1, -1):
        if sc["setup"][i]["op"] not in ("new_doc",):
            yield {**payload, "scenario": {**sc, "setup": sc["setup"][:i] + sc["setup"][i + 1 :], "decisions": None}}
    for i, op in enumerate(sc["setup"]):
        if op["op"] == "new_doc" and "json" in op["spec"]:
            for k, d2 in enumerate(D.shrink_json(op["spec"]["json"])):
                if k > 20:
                    break
                if isinstance(d2, (list, dict)):
                    yield {**payload, "scenario": {**sc, "setup": sc["setup"][:i] + [{**op, "spec": {"json": d2}}] + sc["setup"][i + 1 :], "decisions": None}}

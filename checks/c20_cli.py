"""C20 -- the command-line tool is a faithful, well-behaved front end to find().

Simulated system: ``cli.main()`` itself (argparse included) run in-process on
an in-memory file system and simulated stdio (dst.fakeio).  Fault space: the
stored bytes of the document / query file and their delivery -- truncation,
byte/bit flips, invalid UTF-8, BOM, re-encoding, trailing garbage, values this
runtime cannot decode, short reads.  Oracle: json.loads -> find -> json.dumps,
plus exit status / stderr / stdout / output-file discipline.
"""

from __future__ import annotations

import json
import os
import shutil
import subprocess
import sys
from collections import Counter
from typing import Any
from typing import Dict
from typing import List
from typing import Optional
from typing import Tuple

import jsonpath_rfc9535 as jp
from jsonpath_rfc9535 import cli

from dst import driver
from dst import fakeio
from dst import seeds
from gen import docs as D
from gen import queries as Q

PROPERTY = "C20"
LEVEL = "fault_enumeration"
STEP_UNIT = "raw read() calls served by the simulated streams"
RULE = (
    "run = one CLI invocation scenario: (query: valid / each JSONPathError class / evaluation-time error) x delivery "
    "(-q, --query=, -r file) x document (random JSON, non-ASCII, big numbers, NaN, deep) x document channel (-f file, "
    "-f -, stdin) x fault on the stored bytes (none, truncate, byte flip, bit flip, invalid UTF-8, BOM, UTF-16/32, "
    "trailing garbage, lone surrogate, huge integer, over-deep nesting) x short-read chunking x (--pretty, --debug, "
    "-o file); distinct_nontrivial counts distinct (option set, query class, channel, fault kind, document class, "
    "outcome class, output digest) among runs with a fault injected or an error-class query."
)
ASSUMPTIONS = [
    "I/O errors (EIO, ENOSPC, EPIPE, unopenable paths) and argparse usage errors are outside the statement and not injected",
    "a document is 'definitely undecodable' when every reference decoder (json.loads on bytes, on strict utf-8 text, on "
    "utf-8-sig text, on surrogateescape text) raises; 'decoder-dependent' documents may be accepted or cleanly refused",
    "with --debug an escaping exception is the documented behaviour; only 'no partial result, non-zero exit' is judged",
    "in-process run: an exception leaving main() is the traceback-and-exit-1 of a real process (stub fidelity is "
    "cross-checked against real subprocesses on a sample of scenarios every batch)",
]
COMPONENTS = {
    "real": ["cli.main / handle_path_command", "argparse", "json", "compile + find (whole library)"],
    "stub": ["file system (argparse.open -> in-memory)", "sys.stdin/stdout/stderr/argv", "process exit (SystemExit capture)"],
}


def plan(tier: str) -> Dict[str, Any]:
    if tier == "thorough":
        return {"runs": 1_500_000, "chunk": 1000, "budget_s": 780, "chunk_hard_s": 900, "minimise_s": 60}
    return {"runs": 40_000, "chunk": 250, "budget_s": 45, "chunk_hard_s": 300, "minimise_s": 30}


# ---------------------------------------------------------------------------
# query classes (discovered, not assumed)
# ---------------------------------------------------------------------------
_ERR_QUERIES: Dict[str, List[str]] = {}
EVAL_ERROR_QUERIES = [
    "$..*",  # with an over-deep document -> JSONPathRecursionError
    "$[?count(@) > 0]",
    "$[?value(@) == 1]",
    "$[?length(@) > 1 && count(@) == 1]",
    "$..[?match(@, 'a')]",
]
EXTRA_INVALID = ["$[?@.a == 1e400]", "$[?nosuch(@.a)]", "$[?@.a == 1e400 || @.b]", "$[?foo()]", "$.a[?bar(@, 1) > 2]"]


def worker_init() -> None:
    if _ERR_QUERIES:
        return
    env = jp.JSONPathEnvironment()
    for t in list(Q.INVALID_TEXTS) + EXTRA_INVALID:
        if not t.strip() or t != t.strip():
            continue
        try:
            env.compile(t)
        except Exception as exc:  # noqa: BLE001
            _ERR_QUERIES.setdefault(type(exc).__name__, []).append(t)


# ---------------------------------------------------------------------------
# reference
# ---------------------------------------------------------------------------
def decode_candidates(b: bytes) -> Dict[str, Any]:
    """Every reference decoding of the delivered bytes -> python value (or missing)."""
    out: Dict[str, Any] = {}

    def attempt(name: str, fn: Any) -> None:
        try:
            out[name] = fn()
        except (Exception, RecursionError):  # noqa: BLE001
            pass

    attempt("bytes", lambda: json.loads(b))
    attempt("utf8", lambda: json.loads(b.decode("utf-8")))
    attempt("utf8sig", lambda: json.loads(b.decode("utf-8-sig")))
    attempt("surrogateescape", lambda: json.loads(b.decode("utf-8", "surrogateescape")))
    return out


CAPACITY_DEPTH = 400
QUERY_CAPACITY = 150


def query_complexity(q: str) -> int:
    """Bracket/parenthesis nesting and segment count: what the recursive parser and
    the chain of segment iterators spend interpreter stack on."""
    d = m = 0
    for c in q:
        if c in "([":
            d += 1
            m = max(m, d)
        elif c in ")]":
            d -= 1
    return max(m, q.count(".") + q.count("["))



def bracket_depth(b: bytes) -> int:
    d = m = 0
    for c in b:
        if c in (0x5B, 0x7B):
            d += 1
            m = max(m, d)
        elif c in (0x5D, 0x7D):
            d -= 1
    return m


def classify_doc(b: bytes) -> Tuple[str, Dict[str, Any]]:
    cands = decode_candidates(b)
    if not cands:
        return "undecodable", cands
    if len(cands) == 4 and not b.startswith(b"\xef\xbb\xbf"):
        return "valid", cands
    return "decoder-dependent", cands


def reference(sc: Dict[str, Any]) -> Dict[str, Any]:
    """What the statement demands for this scenario."""
    ref = _reference(sc, sc["query_effective"])
    q = sc["query_effective"]
    if q is not None and q.startswith("\ufeff") and sc.get("qfile_fault") == "bom" and ref["expect"] == "fail":
        # a query file that starts with a byte-order mark: the statement does not say whether the
        # mark belongs to the query (then it is invalid) or to the file (then the rest is the
        # query); a clean refusal and the result for the rest are both accepted
        alt = _reference(sc, q[1:].strip())
        if alt["expect"] in ("ok", "either"):
            return {"expect": "either", "outputs": alt.get("outputs", []), "phase": ref["phase"], "why": ref["why"] + " (byte-order mark at the start of the query file)", "unjudged_output": alt.get("unjudged_output", False)}
    return ref


def _reference(sc: Dict[str, Any], qtext: Any) -> Dict[str, Any]:
    if qtext is None:
        try:
            sc["files"][sc["names"]["q"]].encode("latin-1").decode("utf-8")
        except UnicodeDecodeError:
            return {"expect": "fail", "phase": "query-file", "why": "query file is not valid UTF-8"}
        qtext = sc["files"][sc["names"]["q"]].encode("latin-1").decode("utf-8").strip()
    qcap = query_complexity(qtext) > QUERY_CAPACITY
    try:
        path = jp.JSONPathEnvironment().compile(qtext)
    except RecursionError:
        # interpreter capacity, not a verdict on the query: the CLI runs a few
        # frames deeper than this reference; accept success or a clean refusal
        return {"expect": "either", "outputs": [], "phase": "capacity", "why": "query nested beyond the interpreter's recursion limit", "unjudged_output": True}
    except Exception as exc:  # noqa: BLE001
        return {"expect": "fail", "phase": "compile", "why": type(exc).__name__}
    cls, cands = classify_doc(sc["doc_bytes"])
    depth = bracket_depth(sc["doc_bytes"])
    if depth > CAPACITY_DEPTH:
        # A document nested deeper than this is within reach of the interpreter's
        # own recursion limits (JSON decoder, encoder); whether it can be
        # processed depends on how deep the caller's stack already is.  Either a
        # correct result or a clean refusal is accepted -- never a traceback or a
        # partial result.
        outs = set()
        for data in cands.values():
            try:
                outs.add(json.dumps(path.find(data).values(), indent=2 if sc["pretty"] else None))
            except (Exception, RecursionError):  # noqa: BLE001
                pass
        return {"expect": "either", "outputs": sorted(outs), "phase": "capacity", "why": f"document nested {depth} deep (runtime-capacity dependent)", "unjudged_output": not outs}
    if cls == "undecodable":
        return {"expect": "fail", "phase": "load", "why": "undecodable document"}
    outs = {}
    errs = {}
    for name, data in cands.items():
        try:
            values = path.find(data).values()
            outs[name] = json.dumps(values, indent=2 if sc["pretty"] else None)
        except (Exception, RecursionError) as exc:  # noqa: BLE001
            errs[name] = type(exc).__name__
    if qcap:
        return {"expect": "either", "outputs": sorted(set(outs.values())), "phase": "capacity", "why": "query complexity within reach of the interpreter's recursion limit", "unjudged_output": not outs}
    if cls == "valid":
        if errs:
            return {"expect": "fail", "phase": "evaluate", "why": sorted(set(errs.values()))[0]}
        return {"expect": "ok", "outputs": sorted(set(outs.values()))}
    # decoder-dependent: either a clean failure or one of the candidate outputs
    return {"expect": "either", "outputs": sorted(set(outs.values())), "phase": "load/evaluate", "why": "decoder-dependent document"}


# ---------------------------------------------------------------------------
# scenario generation
# ---------------------------------------------------------------------------
def _doc_text(rng) -> Tuple[str, str]:
    r = rng.random()
    if r < 0.55:
        v = D.random_tree(rng, max_nodes=rng.choice((4, 10, 20)), max_depth=4)
        kind = "random"
    elif r < 0.7:
        v = {"a": ["é", "日本", "á", "\U0001f600", {"b": "ü"}], "b": "ñ", "é": 1}
        kind = "non-ascii"
    elif r < 0.76:
        v = [2**70, -(2**63), 1e308, 5e-324, 1.5, 0, -0.0, {"a": 10**25}]
        kind = "big-numbers"
    elif r < 0.78:
        # number literals beyond the range of a double: the decoder makes them infinite, and so
        # does find(); what the tool writes is what find() selected, not a "repaired" value
        return rng.choice(('[1e400, -1E+999, 2e308, 1.7976931348623157e308, 3, {"a": 1e999}]', '{"a": [2e308, 1.7976931348623157e308, 3], "b": -1e400}', "[" + "9" * 310 + ".0, 1]")), "overflowing-floats"
    elif r < 0.8:
        # characters that only SOME notions of "line" or "blank" know (LS, PS, NEL), raw, in names and values
        return '{"a\u2028b": 1, "a b": 2, "\u0085": 3, "a": ["x\u2028y", "x y", "x\u2029y", "x\u0085y"], "b": {"a\u2029b": 4, "a b": 5}}', "odd-separators"
    elif r < 0.86:
        return rng.choice(('[NaN, 1]', '{"a": Infinity, "b": [-Infinity]}', '[1, {"a": NaN}]')), "nan"
    elif r < 0.885:
        return rng.choice(EXOTIC_DOCS), "exotic-values"
    elif r < 0.905:
        return '{"a": 1, "a": 2, "b": [{"a": 3, "a": 4}]}', "dup-keys"
    elif r < 0.925:
        # larger than any single buffer or pipe: a tool that reads only the first block shows
        n = rng.choice((3000, 20000))
        v = {"a": list(range(n)), "b": ["x" * 50] * 200, "c": {"a": "tail-marker"}}
        if rng.random() < 0.5:
            # raw multi-byte characters at a random alignment: some character
            # straddles every power-of-two block boundary up to the document size
            chars = "é€\U0001f600ñ日"
            runs = ["".join(rng.choice(chars) for _ in range(rng.choice((700, 3000)))) for _ in range(rng.choice((8, 30)))]
            v = {"a": runs, "b": list(range(200)), "c": {"a": "tail-é"}}
            return " " * rng.randrange(4) + json.dumps(v, ensure_ascii=False), f"large-nonascii-{len(runs)}"
        return json.dumps(v), f"large-{n}"
    else:
        depth = rng.choice((5, 50, 99, 100, 101, 150, 300))
        s = "[" * depth + "1" + "]" * depth
        return s, f"deep-{depth}"
    style = rng.random()
    if style < 0.4:
        return json.dumps(v), kind
    if style < 0.7:
        return json.dumps(v, ensure_ascii=False), kind
    if style < 0.85:
        return json.dumps(v, indent=1, ensure_ascii=False), kind
    return json.dumps(v, separators=(",", ":")), kind


EXOTIC_DOCS = [
    # JSON escapes (raw strings): line separators, NUL, ESC, a surrogate pair, combining marks, CR LF, TAB
    r'["\u2028", "a\u2029b", "\u0000", "\u001b[31m", "\ud83d\ude00", "e\u0301", "\u00e9", "\r\n", "\t"]',
    # the same characters raw (UTF-8 encoded), where JSON allows them
    '["\u2028", "a\u2029b", "\U0001f600", "e\u0301", "\u00e9"]',
    r'{"": 1, " ": 2, "a b": 3, "0": 4, "-1": 5, "\u00e9": 6, "e\u0301": 7, "$": 8, "@": 9, "*": 10}',
    "[0.1, 0.30000000000000004, -0.0, 1e16, 10000000000000000, 1e22, 1e23, 5e-324, 2.2250738585072014e-308, 1.7976931348623157e308, 123456789012345678]",
    "[9223372036854775807, 9223372036854775808, 18446744073709551615, 18446744073709551616, -9223372036854775809, 1e400, -1e400]",
    # text that looks like JSON structure, inside strings and member names (what a re-formatter working on text would touch)
    r'{"[ ]": "checkbox [ ] unticked", "{  }": ["{ }", "[  ]", "a, b", "a: b", "[\n]", "\"", "\\", "[ }", "}{", ",", ":"], "k": "x", "a": {"[  ]": [[], {}, [[]], " ", ""]}}',
    '"just a string"', "42", "null", "true", "[]", "{}", "[[]]", "[{}]", '{"a": []}',
    '{"a": {"a": {"a": {"a": "x"}}}, "b": [[], {}, [[]], [{}]]}',
    '["' + "x" * 70000 + '\u00e9", "' + "\u00e9" * 9000 + '"]',
]


def _structural_pos(rng, b: bytes) -> int:
    if not b:
        return 0
    if rng.random() < 0.6:
        idx = [i for i, c in enumerate(b) if c in b'[]{}",:\\' or c >= 0x80]
        if idx:
            return rng.choice(idx)
    return rng.randrange(len(b))


FAULTS = ("none", "none", "none", "truncate", "byteflip", "bitflip", "bad-utf8", "bom", "utf16", "utf32", "garbage", "lone-surrogate", "huge-int", "over-deep", "empty", "partial-char-at-end")


def apply_fault(rng, text: str, fault: str) -> bytes:
    b = text.encode("utf-8")
    if fault == "none":
        return b
    if fault == "truncate":
        return b[: _structural_pos(rng, b)] if b else b
    if fault == "byteflip":
        if not b:
            return b
        i = _structural_pos(rng, b)
        return b[:i] + bytes([rng.randrange(256)]) + b[i + 1 :]
    if fault == "bitflip":
        if not b:
            return b
        i = _structural_pos(rng, b)
        return b[:i] + bytes([b[i] ^ (1 << rng.randrange(8))]) + b[i + 1 :]
    if fault == "bad-utf8":
        i = _structural_pos(rng, b)
        return b[:i] + rng.choice((b"\xff", b"\xc3", b"\xe2\x82", b"\x80", b"\xed\xa0\x80")) + b[i:]
    if fault == "bom":
        return b"\xef\xbb\xbf" + b
    if fault == "utf16":
        return text.encode(rng.choice(("utf-16", "utf-16-le", "utf-16-be")))
    if fault == "utf32":
        return text.encode(rng.choice(("utf-32", "utf-32-le", "utf-32-be")))
    if fault == "garbage":
        return b + rng.choice((b"x", b"]", b" 1", b"\x00", b",", b"{}"))
    if fault == "lone-surrogate":
        return rng.choice((b'["\\ud800"]', b'{"a": "\\udc00x", "b": 1}', b'["\\ud83d", "\\ude00"]'))
    if fault == "huge-int":
        return b'{"a": [' + b"1" * rng.choice((4299, 4300, 4301, 6000)) + b"]}"
    if fault == "over-deep":
        n = rng.choice((900, 1000, 5000, 100_000))
        return b"[" * n + b"]" * n
    if fault == "empty":
        return rng.choice((b"", b" ", b"\n"))
    if fault == "partial-char-at-end":
        # a complete JSON value, then the input stops in the middle of a multi-byte character
        # (what an incremental decoder only notices if it is told that the input has ended)
        if rng.random() < 0.3:
            enc = rng.choice(("utf-16", "utf-16-le", "utf-32", "utf-32-be"))
            return text.encode(enc) + rng.choice((b"[", b"\x00", b"\x20\x00\x00"))[: 1 if "16" in enc else rng.choice((1, 2, 3))]
        return b + rng.choice((b"", b"\n", b" ", b"\r\n")) + rng.choice((b"\xc3", b"\xe2", b"\xe2\x82", b"\xf0", b"\xf0\x9f", b"\xf0\x9f\x98"))
    raise ValueError(fault)


SPECIAL_VALID_QUERIES = [
    "$['a b']", "$[?@ == 'a  b']", "$[?length(@) == 1]", "$[?length(@) == 2]", "$[?match(@, 'A')]", "$[?match(@, 'a')]", "$[?search(@, 'B')]",
    "$.*", "$[*, *]", "$..*", "$[0, 0]", "$['a', 'a']", "$[*, 0]", "$[0:2, 1:3]", "$[-1, 0]", "$[?@ == 1.0]", "$[?@ == 1]", "$[?@ == null]",
    "$[?@ == -0.0]", "$[?@ > 1e15]", "$[?@ == 10000000000000000]", "$..[?@ == @]", "$[?@ == 'e\u0301']", "$[?@ == '\u00e9']", "$['']", "$['$']", "$['*']",
    "$['a\u2028b']", "$['a b']", "$['\u0085']", "$.a[?@ == 'x\u2028y']", "$.a[?@ == 'x y']", "$.b['a\u2029b']", "$.a[?@ != 'x\u0085y']", "$..['a b', 'a\u2028b']",
    "$[?@ > 1.7976931348623157e308]", "$[0, 1]", "$..a", "$[?@ < -1.7976931348623157e308]",
    "$[ 0 ]", "$ [0]", "$[?@.a == 'x' ]", "$[?count(@.*) == 0]", "$[?value(@.*) == 1]", "$[::-1]", "$[1::2]", "$[:0]", "$[?@ != @]", "$..['a', 'a']",
]
FUZZ_CHARS = ("\x0b", "\x1c", "\x1d", "\x1e", "\x85", "\u2029", "\r", "\t", "\x00", "\x1b[31m", "\u2028", "\u00a0", "\x0c", "\n", "'", '"', "\\", "[", "]", "(", ")", "?", "@", "$", ".", "..", ",", ":", "*", "!", "&&", "||", "==", "<", "0", "-", "1e", "\\u", "\\ud83d", "\\udc00", "é", "\U0001f600")


# every non-ASCII whitespace-like / control / format code point a lexer might special-case
_ODD_CODEPOINTS = [chr(c) for c in range(0x80, 0x3100) if chr(c).isspace() or 0x80 <= c <= 0x9F or c in (0xAD, 0x200B, 0x200C, 0x200D, 0x200E, 0x2060, 0xFEFF, 0x061C)] + ["\ufeff", "\ufffe", "\uffff", "\U000e0001"]


# characters some notion of "digit", "number", "letter" or "quote" knows and another does not
# (str.isdigit() vs int(): superscripts, circled digits; decimal digits of other scripts; Roman
# numerals, fractions; typographic quotes and look-alike punctuation)
_LOOKALIKES = [chr(c) for c in range(0x80, 0x3100) if (chr(c).isdigit() and not chr(c).isdecimal()) or (chr(c).isnumeric() and not chr(c).isdigit())][:400] + [chr(c) for c in (0x0661, 0x0967, 0xFF11, 0xFF10, 0x1D7CF)] + list("‘’“”«′＇＂［］．＄＠․∕⁎")


def _fuzz_char(rng) -> str:
    r = rng.random()
    if r < 0.12:
        return rng.choice(_LOOKALIKES)
    if r < 0.45:
        return rng.choice(FUZZ_CHARS)
    if r < 0.85:
        return rng.choice(_ODD_CODEPOINTS)
    c = rng.randrange(0x20, 0x3000)
    return chr(c)


def fuzz_query(rng) -> str:
    """A valid generated query corrupted by a few edits, or an exotic construct:
    what a fixed list of typical invalid queries does not contain."""
    r = rng.random()
    if r < 0.25:
        kind = rng.randrange(9)
        if kind == 0:
            return "$[?" + "(" * rng.choice((30, 200, 600)) + "@.a" + ")" * rng.choice((30, 200, 600)) + "]"
        if kind == 1:
            return "$[" + ", ".join(str(i) for i in range(rng.choice((100, 150, 400)))) + "]"
        if kind == 2:
            # a number with very many digits, wherever the grammar has a number
            digits = rng.choice(("9", "1", "10")) * rng.choice((17, 400, 4300, 4301, 5000, 20000))
            num = rng.choice(("", "", "-")) + digits
            return rng.choice(("$[?@.a == %s]", "$[%s]", "$[%s:]", "$[:%s]", "$[::%s]", "$[0, %s]", "$[1:%s:2]", "$..[%s]", "$[?@[%s]]", "$[?length(@) < %s]", "$[?@ > 1e%s]", "$[?@ > 1.%s]", "$[?@ > %s.5]", "$[?@ > %se1]")) % num
        if kind == 3:
            return "$[?" + "f" * rng.choice((40, 300)) + "(@.a)]"
        if kind == 4:
            return "$['" + rng.choice(("x", "é", "\\ud83d\\ude00", "\\n")) * rng.choice((50, 300, 3000)) + rng.choice(("'", "", "\\")) + "]"
        if kind == 5:
            return "$" + "[?@" * rng.choice((10, 60, 300)) + "]" * rng.choice((10, 60, 300))
        if kind == 6:
            return "$" + _fuzz_char(rng) + ".a"
        if kind == 7 and rng.random() < 0.6:
            # what an undecodable byte on the command line becomes (surrogateescape): a lone
            # surrogate, in every place a character can stand
            sur = rng.choice(("\udcff", "\udc80", "\ud800", "\udfff"))
            return rng.choice(("$['\\u%s000']", "$[?@ == '\\u00%s1']", "$['a%sb']", "$.%s", "$[?match(@, '%s')]", "$[%s]", "$%s", "$[?@.a == %s]", "$['\\%s']", "$.a[?search(@, 'a%s')]", "$[?@ == \"%s\"]")) % sur
        return "$" + ".a" * rng.choice((200, 2000)) + rng.choice(("", ".", "["))
    f = Q.Features(max_segs=3, nested=rng.choice((1, 2)))
    text = Q.render(Q.gen_query(rng, f, 0, 1))
    for _ in range(rng.choice((1, 1, 2, 3))):
        if not text:
            break
        i = rng.randrange(len(text) + 1)
        op = rng.random()
        if op < 0.4:
            text = text[:i] + _fuzz_char(rng) + text[i:]
        elif op < 0.7 and i < len(text):
            text = text[:i] + text[i + 1 :]
        elif i < len(text):
            text = text[:i] + _fuzz_char(rng) + text[i + 1 :]
    return text


def _spread_over_lines(rng, q: str) -> str:
    """Put line breaks (blank space RFC 9535 allows between segments) before some
    top-level '[' or '.' of a query: a query file may well span several lines."""
    out, depth, quote, i = [], 0, None, 0
    while i < len(q):
        c = q[i]
        if quote:
            if c == "\\" and i + 1 < len(q):
                out.append(q[i : i + 2])
                i += 2
                continue
            if c == quote:
                quote = None
        elif c in "'\"":
            quote = c
        elif c in "[(":
            if c == "[" and depth == 0 and i > 0 and rng.random() < 0.5:
                out.append(rng.choice(("\n", "\r\n", "\n  ", " \n\t")))
            depth += 1
        elif c in "])":
            depth -= 1
        elif c == "." and depth == 0 and i > 0 and q[i - 1] != "." and rng.random() < 0.5:
            out.append(rng.choice(("\n", "\r\n", "\n  ")))
        out.append(c)
        i += 1
    return "".join(out)


def gen_scenario(rng) -> Dict[str, Any]:
    worker_init()
    r = rng.random()
    if r < 0.55:
        f = Q.Features(max_segs=3, nested=rng.choice((1, 2)))
        qtext = Q.render(Q.gen_query(rng, f, 0, 0))
        qclass = "generated"
    elif r < 0.8:
        cls = rng.choice(sorted(_ERR_QUERIES))
        qtext = rng.choice(_ERR_QUERIES[cls])
        qclass = f"compile:{cls}"
    elif r < 0.83:
        qtext = rng.choice(EVAL_ERROR_QUERIES)
        qclass = "eval-error-candidate"
    elif r < 0.86:
        # valid queries where a front end that is not exactly find() would differ
        qtext = rng.choice(SPECIAL_VALID_QUERIES)
        qclass = "special-valid"
    else:
        # (14 % of the scenarios)
        qtext = fuzz_query(rng)
        qclass = "fuzzed"
    text, dkind = _doc_text(rng)
    if qclass == "eval-error-candidate" and qtext == "$..*" and rng.random() < 0.7:
        depth = rng.choice((100, 101, 150))
        text, dkind = "[" * depth + "1" + "]" * depth, f"deep-{depth}"
        if rng.random() < 0.5:
            # a WIDE part first (thousands of results), the part that makes the evaluation fail last:
            # whatever is written before the whole result is known would be a partial result
            n = rng.choice((4095, 4096, 4097, 6000, 10000))
            text, dkind = '{"a": [' + ", ".join(map(str, range(n))) + '], "z": ' + "[" * depth + "1" + "]" * depth + "}", f"wide-then-deep-{depth}"
    if dkind.startswith("large") and qclass == "generated":
        # a filter with a root or descendant query per node is quadratic in the
        # document: fine for the library, useless for this check
        qtext = rng.choice(("$.c", "$.a[0]", "$.a[-1]", "$.b[0]", "$..a", "$.a[1:3]", "$.*", "$.c.a", "$.a", "$.b", "$..c.a", "$.a[?@ == 2]", "$.a[::1000]"))
        qclass = "generated-cheap"
    fault = rng.choice(FAULTS)
    if dkind.startswith("large") and rng.random() < 0.6:
        fault = "none"  # large documents are mostly there to be processed, not to be broken
    doc_bytes = apply_fault(rng, text, fault)
    delivery = rng.choice(("-q", "--query=", "-r"))
    if "\x00" in qtext or qtext.startswith("-"):
        delivery = "-r"  # no NUL in a real argv; a leading '-' would be taken for an option
    if any(0xD800 <= ord(ch) <= 0xDFFF for ch in qtext):
        delivery = rng.choice(("-q", "--query="))  # (a file cannot hold a lone surrogate: its bytes would be undecodable)
    # file names are part of the input space too
    n_doc = rng.choice(("/doc.json", "/doc.json", "/data/my doc.json", "/doc.jsonl", "/doc.json.gz", "/doc.json5", "/doc", "/d.JSON", "/doc.txt"))
    n_q = rng.choice(("/q.jsonpath", "/q.jsonpath", "/q.txt", "/query.json", "/$.a", "/my query"))
    n_out = rng.choice(("/out.json", "/out.json", "/out.jsonl", "/out file.txt", "/out", "/result.gz"))
    qfile_fault = "none"
    files: Dict[str, bytes] = {}
    argv: List[str] = []
    query_effective = qtext
    if rng.random() < 0.3:
        argv.append(rng.choice(("--pretty", "--pretty", "--pre")))  # argparse accepts unambiguous abbreviations
    debug = rng.random() < 0.2
    if debug:
        argv.append(rng.choice(("--debug", "--deb")))
    if delivery == "-q":
        argv += ["-q", qtext]
    elif delivery == "--query=":
        argv.append("--query=" + qtext)
    else:
        pad_l = rng.choice(("", "\n", "  ", "\n\n \t", "\r\n"))
        pad_r = rng.choice(("", "\n", "\n\n", " \n", "\r\n", "\r", "\r\n\r\n"))
        body = qtext
        r2 = rng.random()
        if r2 < 0.15 and body:
            qfile_fault = "truncated"
            body = body[: rng.randrange(len(body))]
        if r2 >= 0.26 and rng.random() < 0.25:
            body = _spread_over_lines(rng, body)
        raw = (pad_l + body + pad_r).encode("utf-8")
        query_effective = (pad_l + body + pad_r).strip()
        if 0.15 <= r2 < 0.22:
            # stored bytes of the query file are not UTF-8: the query is undecodable
            qfile_fault = "bad-utf8"
            i = rng.randrange(len(raw) + 1)
            raw = raw[:i] + rng.choice((b"\xff", b"\xc3", b"\x80", b"\xe2\x82")) + raw[i:]
            query_effective = None
        elif 0.22 <= r2 < 0.26:
            qfile_fault = "bom"
            raw = b"\xef\xbb\xbf" + raw
            query_effective = "\ufeff" + (pad_l + body + pad_r)
            query_effective = query_effective.strip()
        files[n_q] = raw
        argv += [rng.choice(("-r", "-r", "--query-file")), n_q]
    channel = rng.choice(("-f", "-f -", "stdin"))
    stdin_bytes = b""
    if channel == "-f":
        files[n_doc] = doc_bytes
        argv += [rng.choice(("-f", "-f", "--file")), n_doc]
    elif channel == "-f -":
        stdin_bytes = doc_bytes
        argv += ["-f", "-"]
    else:
        stdin_bytes = doc_bytes
    out = rng.choice(("stdout", "stdout", "-o"))
    if out == "stdout" and rng.random() < 0.1:
        argv += [rng.choice(("-o", "--output", "--out")), "-"]  # '-' means standard output
    if out == "-o":
        argv += [rng.choice(("-o", "-o", "--output", "--out")), n_out]
        if rng.random() < 0.35:
            files[n_out] = ("[" + "\"stale\", " * rng.choice((3, 400)) + "0]\n").encode()
    # option order and harmless repetition
    if rng.random() < 0.5:
        groups, i = [], 0
        while i < len(argv):
            if argv[i] in ("-q", "-r", "--query-file", "-f", "--file", "-o", "--output", "--out") and i + 1 < len(argv):
                groups.append(argv[i : i + 2])
                i += 2
            else:
                groups.append(argv[i : i + 1])
                i += 1
        rng.shuffle(groups)
        argv = [a for g in groups for a in g]
    if rng.random() < 0.1 and ("--pretty" in argv or "--pre" in argv):
        argv.append("--pretty")
    env_swarm: Dict[str, Any] = {}
    if rng.random() < 0.4:
        for k, vals in (("COLUMNS", ("20", "80", "200", None)), ("NO_COLOR", ("1", None)), ("TERM", ("dumb", "xterm-256color", None)), ("LANG", ("C", "C.UTF-8", "en_US.UTF-8", None)), ("LC_ALL", ("C", None)), ("FORCE_COLOR", ("1", None)), ("JSONPATH_RFC9535_DEBUG", ("1", None))):
            # (only variables a *tool* might consult.  PYTHONWARNINGS=default was in this list and made
            # the thorough tier's real-process sample report the interpreter's own "ResourceWarning:
            # unclosed file" lines as extra diagnostics: what the user asks the interpreter to print is
            # not the tool's diagnostic -- a false alarm of this check, removed here)
            if rng.random() < 0.4:
                env_swarm[k] = rng.choice(vals)
    tty = rng.random() < 0.2
    # the encoding of the output text stream comes from the process environment (locale,
    # PYTHONIOENCODING); an ASCII-only one is common (LANG=C)
    out_encoding = "ascii" if rng.random() < 0.15 else "utf-8"
    nchunk = rng.choice((0, 1, 2, 3))
    chunks = [rng.choice((1, 2, 3, 5, 7, 16, 64)) for _ in range(nchunk)]
    return {
        "argv": argv,
        "files": {k: v.decode("latin-1") for k, v in files.items()},
        "stdin": stdin_bytes.decode("latin-1"),
        "stdin_errors": rng.choice(("strict", "strict", "surrogateescape")),
        "chunks": chunks,
        "environ": env_swarm,
        "tty": tty,
        "out_encoding": out_encoding,
        "names": {"doc": n_doc, "q": n_q, "out": n_out},
        "query_effective": query_effective,
        "qclass": qclass,
        "qfile_fault": qfile_fault,
        "dkind": dkind,
        "fault": fault,
        "channel": channel,
        "out": out,
        "pretty": "--pretty" in argv or "--pre" in argv,
        "debug": debug,
    }


# ---------------------------------------------------------------------------
# judge
# ---------------------------------------------------------------------------
def _doc_bytes(sc: Dict[str, Any]) -> bytes:
    if sc["channel"] == "-f":
        return sc["files"][sc["names"]["doc"]].encode("latin-1")
    return sc["stdin"].encode("latin-1")


def execute(sc: Dict[str, Any]) -> Dict[str, Any]:
    files = {k: v.encode("latin-1") for k, v in sc["files"].items()}
    return fakeio.run_cli(cli.main, sc["argv"], files, sc["stdin"].encode("latin-1"), stdin_errors=sc["stdin_errors"], chunks=sc["chunks"], tty=sc.get("tty", False), environ=sc.get("environ"), module=cli, out_encoding=sc.get("out_encoding", "utf-8"), virtual=list(sc["names"].values()))


def judge(sc: Dict[str, Any], obs: Dict[str, Any], ref: Dict[str, Any]) -> List[Tuple[str, str]]:
    """List of (class, what)."""
    out: List[Tuple[str, str]] = []
    primary = obs["outputs"].get(sc["names"]["out"], "") if sc["out"] == "-o" else obs["stdout"]
    other = obs["stdout"] if sc["out"] == "-o" else ""
    stderr = obs["stderr"]

    def fail_checks(phase: str, why: str) -> None:
        if obs["escaped"] is not None:
            if not sc["debug"]:
                out.append((f"uncaught:{obs['escaped']}@{phase}", f"traceback without --debug: {obs['escaped']}: {obs['escaped_msg']} (in {obs['escaped_where']}); expected a one-line diagnostic for {why}"))
        else:
            if obs["status"] == 0:
                out.append((f"exit0-on-error@{phase}", f"exit status 0 although {why}"))
            elif not sc["debug"]:
                # "one line": non-blank text holding no line break (LF, CR) other than one line
                # terminator at its end.  (Not demanded: the terminator itself, nor the absence of
                # the separators only str.splitlines() knows -- FF, VT, NEL, U+2028/9.)
                body = stderr[:-2] if stderr.endswith("\r\n") else stderr[:-1] if stderr.endswith("\n") else stderr
                if not body.strip() or "\n" in body or "\r" in body:
                    out.append((f"stderr-not-one-line@{phase}", f"stderr is {stderr[:200]!r}; expected exactly one non-empty line for {why}"))
        # nothing may be written: the output is empty -- or, for an output file that existed before
        # the run, still exactly what it was (a tool that does not clobber it on failure is fine)
        before = sc["files"].get(sc["names"]["out"]) if sc["out"] == "-o" else None
        untouched = before is not None and primary == before.encode("latin-1").decode("utf-8", "replace")
        if (primary and not untouched) or other:
            out.append((f"partial-output@{phase}", f"output written although {why}: {(primary or other)[:120]!r}"))

    if ref["expect"] == "fail":
        fail_checks(ref["phase"], ref["why"])
        return out
    success_like = obs["escaped"] is None and obs["status"] == 0
    if ref["expect"] == "either" and not success_like:
        fail_checks(ref["phase"], ref["why"])
        return out
    if ref["expect"] == "either" and ref.get("unjudged_output"):
        return out
    if ref["expect"] == "either" and not ref["outputs"]:
        # no decoding evaluates cleanly -> a success is wrong whatever it printed
        out.append(("exit0-on-error@load/evaluate", "exit status 0 although no decoding of the document evaluates"))
        return out
    # success expected (or chosen)
    if obs["escaped"] is not None:
        out.append((f"uncaught:{obs['escaped']}@success", f"exception {obs['escaped']}: {obs['escaped_msg']} for a valid query and document"))
        return out
    if obs["status"] != 0:
        out.append(("nonzero-exit-on-success", f"exit status {obs['status']} with stderr {stderr[:200]!r} for a valid query and document"))
        return out
    if primary not in ref["outputs"] and not _json_equivalent(primary, ref["outputs"]):
        out.append(("wrong-output", f"output {primary[:200]!r} is not the JSON array json.dumps(find(q, doc).values()) = {ref['outputs'][0][:200]!r}"))
    if other:
        out.append(("other-channel-not-empty", f"stdout has {other[:100]!r} although -o was given"))
    # (something on stderr next to a correct result and exit 0 -- a warning, say -- is not
    # forbidden by the statement; it is counted, not judged)
    return out


def _json_equivalent(primary: str, outputs: List[str]) -> bool:
    """The statement asks for "exactly the JSON array", not for particular white space: an
    output that parses to the same typed value (int/float/bool/null/string distinctions,
    member order, NaN) as one of the reference outputs is that array, however it is
    indented or terminated.  Anything that does not parse as one JSON text is not."""
    try:
        got = D.canon(json.loads(primary))
    except (ValueError, RecursionError):
        return False
    for o in outputs:
        try:
            if got == D.canon(json.loads(o)):
                return True
        except (ValueError, RecursionError):
            continue
    return False


def run_scenario(sc: Dict[str, Any]) -> Dict[str, Any]:
    sc = dict(sc)
    sc["doc_bytes"] = _doc_bytes(sc)
    ref = reference(sc)
    obs = execute(sc)
    verdicts = judge(sc, obs, ref)
    del sc["doc_bytes"]
    viols = []
    for cls, what in verdicts:
        head = f"argv={sc['argv']} channel={sc['channel']} fault={sc['fault']} doc={sc['dkind']}: "
        sig = f"C20:{cls}"
        if cls.startswith("uncaught:"):
            sig += f":{obs['escaped_where']}"
        viols.append({"class": cls, "signature": sig, "what": head + what, "payload": {"scenario": sc}})
    return {"ref": ref, "obs": obs, "violations": viols}


def outcome_class(obs: Dict[str, Any]) -> str:
    if obs["escaped"]:
        return f"traceback:{obs['escaped']}"
    return f"exit{obs['status']}"


def run_one(seed: int, tier: str, index: int) -> Dict[str, Any]:
    rng = seeds.stream(seed, "workload")
    sc = gen_scenario(rng)
    res = run_scenario(sc)
    obs, ref = res["obs"], res["ref"]
    st: Counter = Counter()
    st[f"fault_{sc['fault']}"] += 1
    st[f"channel_{sc['channel']}"] += 1
    st[f"query_{sc['qclass']}"] += 1
    st[f"expect_{ref['expect']}" + (f"_{ref.get('phase')}" if ref["expect"] == "fail" else "")] += 1
    st[f"outcome_{outcome_class(obs)}"] += 1
    st["opt_pretty"] += sc["pretty"]
    st["opt_debug"] += sc["debug"]
    st["opt_o"] += sc["out"] == "-o"
    st["short_read_runs"] += bool(sc["chunks"])
    st["probe_short_read_split_multibyte"] += 1 if obs["split_multibyte"] else 0
    if ref["expect"] == "ok" and obs["status"] == 0 and obs["stderr"]:
        st["note_stderr_text_on_success"] += 1
    if sc["qfile_fault"] != "none":
        st[f"fault_queryfile_{sc['qfile_fault']}"] += 1
    if ref["expect"] == "fail" and ref["phase"] == "evaluate":
        st["probe_evaluation_error"] += 1
    if sc["fault"] in ("byteflip", "bitflip") and ref["expect"] == "ok":
        st["probe_flip_left_document_valid"] += 1
    primary = obs["outputs"].get(sc["names"]["out"], "") if sc["out"] == "-o" else obs["stdout"]
    events = [sc["argv"], sc["channel"], sc["fault"], obs["status"], obs["escaped"], seeds.digest(primary), seeds.digest(obs["stderr"])]
    sig = None
    if sc["fault"] != "none" or sc["qclass"] != "generated":
        sig = seeds.digest([sorted(a for a in sc["argv"] if a.startswith("--") and "=" not in a), sc["qclass"], sc["channel"], sc["fault"], sc["dkind"], outcome_class(obs), seeds.digest(primary)])
    sample = None
    if index % 5003 == 0:
        sample = {"argv": sc["argv"], "channel": sc["channel"], "fault": sc["fault"], "doc_kind": sc["dkind"], "chunks": sc["chunks"], "expected": {k: v for k, v in ref.items() if k != "outputs"}, "status": obs["status"], "escaped": obs["escaped"], "stderr": obs["stderr"][:120], "output": primary[:120]}
    return {"digest": seeds.digest(events), "sig": sig, "stats": dict(st), "steps": obs["reads"], "violations": res["violations"], "sample": sample}


def replay(payload: Dict[str, Any]) -> List[Dict[str, Any]]:
    worker_init()
    if payload.get("real_process"):
        sc = payload["scenario"]
        scratch = os.path.join(driver.VERIF, "scratch", f"c20-replay-{os.getpid()}")
        os.makedirs(scratch, exist_ok=True)
        try:
            sc2 = dict(sc)
            sc2["doc_bytes"] = _doc_bytes(sc)
            real = _real_run(sc, scratch)
            return [{"class": c, "signature": f"C20:{c}:real-process", "what": w, "payload": payload} for c, w in judge(sc, real, reference(sc2))]
        finally:
            shutil.rmtree(scratch, ignore_errors=True)
    return run_scenario(payload["scenario"])["violations"]


def shrink_candidates(payload: Dict[str, Any]):
    if payload.get("real_process"):
        return
    sc = payload["scenario"]
    # a simpler query (only when given inline or by file without byte faults)
    if sc["qfile_fault"] == "none" and sc["query_effective"] is not None:
        for q2 in ("$", "$..*", "$.*", "$[0]", "$.a"):
            if len(q2) < len(sc["query_effective"]):
                argv = list(sc["argv"])
                files = dict(sc["files"])
                done = False
                for i, a in enumerate(argv):
                    if a == "-q" and i + 1 < len(argv):
                        argv[i + 1] = q2
                        done = True
                    elif a.startswith("--query="):
                        argv[i] = "--query=" + q2
                        done = True
                if sc["names"]["q"] in files:
                    files[sc["names"]["q"]] = q2
                    done = True
                if done:
                    yield {"scenario": {**sc, "argv": argv, "files": files, "query_effective": q2}}
    if sc["stdin_errors"] != "strict":
        yield {"scenario": {**sc, "stdin_errors": "strict"}}
    if "--debug" in sc["argv"] and False:
        pass
    # options first
    for opt in ("--pretty", "--debug"):
        if opt in sc["argv"] and opt != "--debug":
            a2 = [a for a in sc["argv"] if a != opt]
            yield {"scenario": {**sc, "argv": a2, "pretty": "--pretty" in a2 or "--pre" in a2}}
    if sc["chunks"]:
        yield {"scenario": {**sc, "chunks": []}}
    # shrink the document bytes (halves, then single deletions near the end)
    key = sc["names"]["doc"] if sc["channel"] == "-f" else None
    data = sc["files"][key] if key else sc["stdin"]
    n = len(data)
    cands = []
    if n > 1:
        cands += [data[: n // 2], data[n // 2 :]]
        step = max(1, n // 16)
        for i in range(0, n, step):
            cands.append(data[:i] + data[i + step :])
    for d2 in cands[:40]:
        if key:
            yield {"scenario": {**sc, "files": {**sc["files"], key: d2}}}
        else:
            yield {"scenario": {**sc, "stdin": d2}}


# ---------------------------------------------------------------------------
# stub fidelity: the same scenarios through a real process
# ---------------------------------------------------------------------------
def _real_run(sc: Dict[str, Any], scratch: str) -> Dict[str, Any]:
    """Run the scenario through `python -m jsonpath_rfc9535` with real files, a real pipe on
    stdin and -- when the scenario says tty -- a real pseudo-terminal on stdout/stderr."""
    import pty
    import tty as _tty

    names = {v: os.path.join(scratch, "f%d%s" % (i, os.path.splitext(v)[1] or "")) for i, v in enumerate(sorted(set(sc["names"].values()) | set(sc["files"])))}
    argv = [names.get(a, a) for a in sc["argv"]]
    for k in list(names.values()):
        if os.path.exists(k):
            os.remove(k)
    for k, v in sc["files"].items():
        with open(names[k], "wb") as fd:
            fd.write(v.encode("latin-1"))
    env = dict(os.environ)
    env["PYTHONPATH"] = os.environ.get("VERIF_REPO", "/repo")
    enc = sc.get("out_encoding", "utf-8") if sc["channel"] == "-f" and sc["out"] != "-o" else "utf-8"
    env["PYTHONIOENCODING"] = enc + ":" + sc["stdin_errors"]
    env["PYTHONDONTWRITEBYTECODE"] = "1"
    env["HOME"] = scratch
    for k in ("PYTHONWARNINGS", "PYTHONDEVMODE", "PYTHONTRACEMALLOC", "PYTHONFAULTHANDLER", "PYTHONVERBOSE", "PYTHONINSPECT"):
        env.pop(k, None)  # the interpreter's own diagnostics are not the tool's
    for k, v in (sc.get("environ") or {}).items():
        if v is None:
            env.pop(k, None)
        else:
            env[k] = v
    cmd = [sys.executable, "-B", "-m", "jsonpath_rfc9535", *argv]
    stdin_data = sc["stdin"].encode("latin-1")
    if sc.get("tty"):
        m_out, s_out = pty.openpty()
        m_err, s_err = pty.openpty()
        _tty.setraw(s_out)
        _tty.setraw(s_err)
        p = subprocess.Popen(cmd, stdin=subprocess.PIPE, stdout=s_out, stderr=s_err, env=env, cwd=scratch)
        os.close(s_out)
        os.close(s_err)
        try:
            p.stdin.write(stdin_data)
            p.stdin.close()
        except BrokenPipeError:
            pass

        def drain(fd: int) -> bytes:
            out = b""
            while True:
                try:
                    b = os.read(fd, 65536)
                except OSError:
                    break
                if not b:
                    break
                out += b
            os.close(fd)
            return out

        import threading

        res: Dict[str, bytes] = {}
        t1 = threading.Thread(target=lambda: res.__setitem__("o", drain(m_out)))
        t2 = threading.Thread(target=lambda: res.__setitem__("e", drain(m_err)))
        t1.start(), t2.start()
        rc = p.wait(timeout=120)
        t1.join(), t2.join()
        so, se = res["o"], res["e"]
    else:
        cp = subprocess.run(cmd, input=stdin_data, capture_output=True, env=env, timeout=120, cwd=scratch, check=False)
        rc, so, se = cp.returncode, cp.stdout, cp.stderr
    real_err = se.decode("utf-8", "replace")
    outp = names.get(sc["names"]["out"])
    real_file = ""
    if sc["out"] == "-o" and outp and os.path.exists(outp):
        with open(outp, encoding="utf-8", errors="replace") as fd:
            real_file = fd.read()
    tb = "Traceback (most recent call last)" in real_err
    last = real_err.strip().splitlines()[-1] if real_err.strip() else ""
    return {
        "status": rc, "stdout": so.decode("utf-8", "replace"), "stderr": real_err,
        "outputs": {sc["names"]["out"]: real_file} if sc["out"] == "-o" else {},
        "escaped": (last.split(":")[0].split(".")[-1] or "Exception") if tb else None,
        "escaped_msg": last[:200], "escaped_where": "real-process", "traceback": real_err if tb else "",
        "reads": 0, "split_multibyte": 0,
    }


def finish(tier: str, base: int, merged: Dict[str, Any]) -> Dict[str, Any]:
    """A sample of the batch's scenarios is run through a real process as well: the in-process
    observation must agree with the real one (stub fidelity), and the real one is judged against
    the reference in its own right (so a defect that lives in what the stubs replace -- the
    process environment, terminals, real descriptors -- is still a VIOLATION)."""
    worker_init()
    n = 300 if tier == "thorough" else 40
    scratch = os.path.join(driver.VERIF, "scratch", f"c20-{os.getpid()}")
    os.makedirs(scratch, exist_ok=True)
    checked = 0
    violations: List[Dict[str, Any]] = []
    mismatch = None
    try:
        i = 0
        while checked < n and i < 50 * n:
            seed = seeds.run_seed(base, PROPERTY, tier, i)
            i += 1
            sc = gen_scenario(seeds.stream(seed, "workload"))
            if sc["fault"] == "over-deep" or sc["dkind"].startswith("large") or any("\x00" in a for a in sc["argv"]):
                continue
            try:
                [os.fsencode(a) for a in sc["argv"]]
            except UnicodeEncodeError:
                continue  # (not every lone surrogate is an undecodable byte: this argv cannot exist)
            sc2 = dict(sc)
            sc2["doc_bytes"] = _doc_bytes(sc)
            ref = reference(sc2)
            obs = execute(sc)
            real = _real_run(sc, scratch)
            checked += 1
            for cls, what in judge(sc, real, ref):
                head = f"[real process] argv={sc['argv']} channel={sc['channel']} fault={sc['fault']} tty={sc.get('tty')} env={sc.get('environ')}: "
                violations.append({"class": cls, "signature": f"C20:{cls}:real-process", "what": head + what, "payload": {"scenario": sc, "real_process": True}})
            if mismatch is None:
                problems = []
                if real["status"] != obs["status"]:
                    problems.append(f"status {real['status']} vs {obs['status']}")
                if real["stdout"] != obs["stdout"]:
                    problems.append(f"stdout {real['stdout'][:80]!r} vs {obs['stdout'][:80]!r}")
                if real["outputs"].get(sc["names"]["out"], "") != obs["outputs"].get(sc["names"]["out"], ""):
                    problems.append("output file differs")
                if (real["escaped"] is not None) != (obs["escaped"] is not None):
                    problems.append(f"traceback {real['escaped']} vs escaped {obs['escaped']}")
                elif obs["escaped"] is None and real["stderr"] != obs["stderr"]:
                    problems.append(f"stderr {real['stderr'][:80]!r} vs {obs['stderr'][:80]!r}")
                if problems:
                    mismatch = f"stub fidelity mismatch for argv={sc['argv']} fault={sc['fault']} channel={sc['channel']} stdin_errors={sc['stdin_errors']} tty={sc.get('tty')} env={sc.get('environ')}: " + "; ".join(problems)
    finally:
        shutil.rmtree(scratch, ignore_errors=True)
    if mismatch is not None and not violations:
        raise driver.HarnessError(mismatch)
    return {"stub_fidelity_scenarios_cross_checked_in_real_subprocess": checked, "violations": violations}

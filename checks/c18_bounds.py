"""C18 -- descendant traversal is bounded: deep / cyclic data raises
JSONPathRecursionError, in bounded (simulated) time, in both modes.

Schedule space: the choice streams of the random seam (nondeterministic mode:
whether the walk completes, raises or returns at all depends on the coins) and
the simulated step clock.  Deterministic mode rides along as the zero-choice
case; the statement demands the same bound in both modes.
"""

from __future__ import annotations

from collections import Counter
from typing import Any
from typing import Dict
from typing import List
from typing import Optional
from typing import Tuple

import jsonpath_rfc9535 as jp

from dst import seeds
from dst import simrandom
from dst.stepclock import StepBudgetExceeded
from dst.stepclock import StepClock
from gen import docs as D
from gen import queries as Q
from ref import nesting as N

PROPERTY = "C18"
LEVEL = "exploration"
STEP_UNIT = "line events inside jsonpath_rfc9535 (sys.monitoring step clock)"
RULE = (
    "run = one (limit L, mode, value shape, query, choice stream) scenario evaluated with find() under the step clock; "
    "shapes: container chains with nesting L-2..L+3 (object/array mixes, deep branch first/middle/last among shallow "
    "siblings, scalar or empty container at the bottom), DAGs, self-loops, 2/3-cycles, cycles with branching >= 2, "
    "cycles below a finite prefix; the outcome must equal the reference (raise iff some input node of the descendant "
    "segment has nesting > L, else the reference's own full result) within max(300000, 400*(walk work)) steps. "
    "distinct_nontrivial counts distinct (L, mode, shape descriptor, nesting-L, query, outcome, choice-trace digest) "
    "among runs whose nesting is within 3 of L or whose value is cyclic."
)
ASSUMPTIONS = [
    "nesting counts containers on a path starting with the descendant segment's input node (depth 1); scalars add none",
    "bounded time is judged by the step clock only: budget max(300000, 400 x (reference walk work + data size x segments [x limit for cyclic data]) + 8 x depth^2 x segments); cyclic values with "
    "branching are placed at L <= 6 (boundary) or L >= 50 (hang), not in between",
    "memory: what ordinary code allocates is bounded by the step budget; beyond that the evaluation runs under a 6 GiB address-space cap and a MemoryError inside it is a violation (peak memory below the cap is not judged)",
]
COMPONENTS = {
    "real": ["lexer", "parser", "descendant segment (both walks)", "selectors", "environment limit"],
    "stub": ["random.choice/sample/shuffle/... (SimRandom)", "clock: sys.monitoring line counter"],
}

_ENVS: Dict[Any, jp.JSONPathEnvironment] = {}
# the ways a user configures the limit (and the mode): all of them are "the environment's"
CONFIG_MODES = ("class", "class", "instance", "inherited", "instance-over-class")


def env_for(limit: int, nondet: bool, how: str = "class") -> jp.JSONPathEnvironment:
    """A fresh environment for every evaluation, built while the simulated generator is installed
    (whatever randomness an environment sets up for itself at construction is part of the run).
    The last 40 are kept alive, so environments with other limits and modes coexist in the process."""
    key = (limit, nondet, how, len(_ENVS))
    if len(_ENVS) > 40:
        _ENVS.pop(next(iter(_ENVS)))
    if key not in _ENVS:
        name = f"Env_L{limit}_{'N' if nondet else 'D'}"
        if how == "instance":
            # attributes set on a plain environment object after construction
            env = jp.JSONPathEnvironment()
            env.max_recursion_depth = limit
            env.nondeterministic = nondet
        elif how == "inherited":
            # configured on a base class; the environment is an instance of a subclass of it
            base = type(name + "_base", (jp.JSONPathEnvironment,), {"max_recursion_depth": limit, "nondeterministic": nondet})
            env = type(name + "_sub", (base,), {})()
        elif how == "instance-over-class":
            # the class says one thing, the object another: the object's setting is the environment's
            cls = type(name, (jp.JSONPathEnvironment,), {"max_recursion_depth": limit + 7, "nondeterministic": not nondet})
            env = cls()
            env.max_recursion_depth = limit
            env.nondeterministic = nondet
        else:
            env = type(name, (jp.JSONPathEnvironment,), {"max_recursion_depth": limit, "nondeterministic": nondet})()
        _ENVS[key] = env
    return _ENVS[key]


def worker_init() -> None:
    import sys

    # the deterministic walk is recursive; keep the interpreter's own limit at
    # its default so that what a user would see is what is judged
    sys.setrecursionlimit(1000)
    # "never ... unbounded memory growth": the step clock bounds the work, and with it what
    # ordinary code can allocate; a cap on the address space catches the rest (one statement
    # allocating gigabytes) as a MemoryError inside the evaluation, which is a verdict
    try:
        import resource

        soft, hard = resource.getrlimit(resource.RLIMIT_AS)
        cap = 6 << 30
        if soft == resource.RLIM_INFINITY or soft > cap:
            resource.setrlimit(resource.RLIMIT_AS, (cap, hard))
    except (ImportError, ValueError, OSError):
        pass


def plan(tier: str) -> Dict[str, Any]:
    if tier == "thorough":
        return {"runs": 600_000, "chunk": 400, "budget_s": 780, "chunk_hard_s": 900, "minimise_s": 60}
    return {"runs": 24_000, "chunk": 100, "budget_s": 45, "chunk_hard_s": 300, "minimise_s": 30}


# ---------------------------------------------------------------------------
# shapes (graph specs, see gen.docs)
# ---------------------------------------------------------------------------
def chain_spec(kinds: str, bottom: str, sib: List[Tuple[int, str, str]]) -> Dict[str, Any]:
    """A chain of len(kinds) nested containers.

    bottom: "scalar" | "empty" (what the innermost container holds: one scalar, or nothing)
    sib: per level (level, where, what) shallow siblings: where in first|last, what in scalar|list|dict
    Deep child key in objects is "a"; siblings get "b", "c", ...
    """
    nodes: List[list] = []
    n = len(kinds)
    # node i is the container at level i
    for i, k in enumerate(kinds):
        nodes.append(["d" if k == "d" else "l", []])
    extra_keys = ["b", "c", "d", "e", "f"]
    per_level: Dict[int, List[Tuple[str, str]]] = {}
    for lvl, where, what in sib:
        if lvl < n:
            per_level.setdefault(lvl, []).append((where, what))
    for i in range(n):
        members: List[Tuple[str, int]] = []
        if i + 1 < n:
            members.append(("a", i + 1))
        elif bottom == "scalar":
            nodes.append(["v", 7])
            members.append(("a", len(nodes) - 1))
        for j, (where, what) in enumerate(per_level.get(i, [])):
            if what == "scalar":
                nodes.append(["v", j + 1])
            elif what == "list":
                nodes.append(["v", 1])
                nodes.append(["l", [len(nodes) - 1]])
            else:
                nodes.append(["v", 1])
                nodes.append(["d", [["a", len(nodes) - 1]]])
            ref = len(nodes) - 1
            key = extra_keys[j % len(extra_keys)]
            if where == "first":
                members.insert(0, (key, ref))
            else:
                members.append((key, ref))
        if nodes[i][0] == "d":
            nodes[i][1] = [[k, r] for k, r in members]
        else:
            nodes[i][1] = [r for _k, r in members]
    return {"graph": nodes, "root": 0}


CYCLIC = {
    "self-list": {"graph": [["l", [0]]], "root": 0},
    "self-dict": {"graph": [["d", [["a", 0]]]], "root": 0},
    "self-list-scalar-first": {"graph": [["l", [1, 0]], ["v", 1]], "root": 0},
    "two-cycle": {"graph": [["d", [["a", 1]]], ["l", [0]]], "root": 0},
    "three-cycle": {"graph": [["l", [1]], ["d", [["a", 2]]], ["l", [3, 0]], ["v", 5]], "root": 0},
    "prefix-then-cycle": {"graph": [["d", [["b", 4], ["a", 1]]], ["l", [2]], ["d", [["a", 3]]], ["l", [2]], ["v", 2]], "root": 0},
    "branch2-list": {"graph": [["l", [0, 0]]], "root": 0},
    "branch2-dict": {"graph": [["d", [["a", 0], ["b", 1]]], ["l", [0]]], "root": 0},
    "branch3-mixed": {"graph": [["l", [0, 1, 0]], ["d", [["a", 0], ["b", 0]]]], "root": 0},
    "prefix-then-branch2": {"graph": [["l", [1, 2]], ["v", 3], ["d", [["a", 3]]], ["l", [3, 3, 1]]], "root": 0},
}
BRANCHING = {"branch2-list", "branch2-dict", "branch3-mixed", "prefix-then-branch2"}

def wide_spec(rng, n: int):
    """root -> n containers (or root -> m groups -> n/m containers); each leaf container empty or holding one scalar."""
    root_kind = rng.choice("ld")
    leaf = rng.choice(("empty-l", "empty-d", "scalar-l", "scalar-d"))
    two_level = rng.random() < 0.4
    nodes: List[list] = [[root_kind, []]]
    nodes.append(["v", 3])  # shared scalar
    groups = [0]
    if two_level:
        groups = []
        for g in range(rng.choice((3, 17, 60))):
            nodes.append([rng.choice("ld"), []])
            groups.append(len(nodes) - 1)
    for i in range(n):
        if leaf == "empty-l":
            nodes.append(["l", []])
        elif leaf == "empty-d":
            nodes.append(["d", []])
        elif leaf == "scalar-l":
            nodes.append(["l", [1]])
        else:
            nodes.append(["d", [["a", 1]]])
        parent = groups[i % len(groups)]
        idx = len(nodes) - 1
        if nodes[parent][0] == "l":
            nodes[parent][1].append(idx)
        else:
            nodes[parent][1].append([f"k{i}", idx])
    if two_level:
        for gi, g in enumerate(groups):
            if nodes[0][0] == "l":
                nodes[0][1].append(g)
            else:
                nodes[0][1].append([f"g{gi}", g])
    return {"graph": nodes, "root": 0}, (3 if two_level else 2)


def random_cyclic(rng):
    """A random small container tree (3..9 containers, mixed kinds, scalars and empty containers
    among the children) plus 1..2 back edges to an ancestor or to the node itself, inserted first,
    last or in the middle; possibly inside a long array.  Returns (spec, branching)."""
    nodes: List[list] = [[rng.choice("ld"), []]]
    parent = {0: None}
    order = [0]
    n = rng.randint(2, 8)
    for _ in range(n):
        p = rng.choice(order)
        nodes.append([rng.choice("ld"), []])
        i = len(nodes) - 1
        parent[i] = p
        order.append(i)
    kids: Dict[int, List[int]] = {i: [] for i in order}
    for i in order[1:]:
        kids[parent[i]].append(i)
    back: Dict[int, List[int]] = {i: [] for i in order}
    nback = rng.choice((1, 1, 1, 2))
    for _ in range(nback):
        src = rng.choice(order)
        anc = [src]
        a = parent[src]
        while a is not None:
            anc.append(a)
            a = parent[a]
        back[src].append(rng.choice(anc))
    # branching: some cycle can be entered twice from one container (two back edges from one node,
    # or a back edge from two different descendants of the target)
    targets = [t for i in order for t in back[i]]
    branching = len(targets) > len(set(targets)) or any(len(back[i]) > 1 for i in order)
    for i in order:
        members: List[int] = list(kids[i])
        for t in back[i]:
            members.insert(rng.choice((0, len(members), rng.randrange(len(members) + 1))), t)
        # scalars / empty containers / padding of a long array around them
        for _ in range(rng.choice((0, 0, 1, 2, 6))):
            if rng.random() < 0.7:
                nodes.append(["v", rng.randint(1, 9)])
            else:
                nodes.append([rng.choice("ld"), []])
            members.insert(rng.randrange(len(members) + 1), len(nodes) - 1)
        if nodes[i][0] == "l":
            nodes[i][1] = members
        else:
            keys = ["a", "b", "c", "d", "e", "f", "g", "h", "i", "j", "k", "m", "n", "o", "p"]
            nodes[i][1] = [[keys[j % len(keys)] + ("" if j < len(keys) else str(j)), m] for j, m in enumerate(members)]
    return {"graph": nodes, "root": 0}, branching


def random_dag(rng):
    """A random small container tree (3..10 containers, mixed kinds) in which 1..3 containers are
    referenced a second time from elsewhere -- at another depth as a rule -- with the extra
    reference first, last or in the middle of its holder.  Edges only go from older to younger
    nodes, so there is no cycle: the value is finite, shared sub-objects are legal data and must
    give the full result (each occurrence counts), and its nesting is that of its unfolding."""
    nodes: List[list] = [[rng.choice("ld"), []]]
    parent = {0: None}
    n = rng.randint(2, 9)
    for i in range(1, n + 1):
        nodes.append([rng.choice("ld"), []])
        parent[i] = rng.randrange(i) if rng.random() < 0.6 else i - 1  # a deep branch more often than not
    members: Dict[int, List[int]] = {i: [] for i in range(n + 1)}
    for i in range(1, n + 1):
        members[parent[i]].append(i)
    for _ in range(rng.choice((1, 1, 2, 3))):
        holder = rng.randrange(n)
        target = rng.randrange(holder + 1, n + 1)
        where = rng.choice((0, len(members[holder]), rng.randrange(len(members[holder]) + 1)))
        members[holder].insert(where, target)
    for i in range(n + 1):
        ms = list(members[i])
        for _ in range(rng.choice((0, 0, 1, 2))):
            nodes.append(["v", rng.randint(1, 9)])
            ms.insert(rng.randrange(len(ms) + 1), len(nodes) - 1)
        if nodes[i][0] == "l":
            nodes[i][1] = ms
        else:
            keys = ["a", "b", "c", "d", "e", "f", "g", "h", "i", "j", "k", "m"]
            nodes[i][1] = [[keys[j % len(keys)] + ("" if j < len(keys) else str(j)), m] for j, m in enumerate(ms)]
    return {"graph": nodes, "root": 0}


DAGS = {
    "dag-shared-leaf": {"graph": [["l", [1, 1]], ["l", [2]], ["v", 1]], "root": 0},
    "dag-diamond": {"graph": [["d", [["a", 1], ["b", 2]]], ["l", [3]], ["l", [3]], ["d", [["a", 4]]], ["v", 9]], "root": 0},
    "dag-3-levels": {"graph": [["l", [1, 1]], ["l", [2, 2]], ["l", [3, 3]], ["v", 4]], "root": 0},
}

DESC_SELS = [
    [{"t": "wild"}],
    [{"t": "index", "v": 0}],
    [{"t": "name", "v": "a"}],
    [{"t": "filter", "e": {"t": "rel", "q": {"segs": []}}}],
    [{"t": "name", "v": "a"}, {"t": "index", "v": -1}],
]
# [?@..a]: existence of a descendant member "a" below each child
EMBEDDED_DESC_FILTER = {"t": "filter", "e": {"t": "rel", "q": {"segs": [{"k": "desc", "sels": [{"t": "name", "v": "a"}], "sh": True}]}}}
# [?count(@..*) > K]: the descendant segment inside a function argument
def embedded_count_filter(k: int) -> Dict[str, Any]:
    inner = {"t": "rel", "q": {"segs": [{"k": "desc", "sels": [{"t": "wild"}], "sh": True}]}}
    return {"t": "filter", "e": {"t": "cmp", "op": ">", "l": {"t": "call", "name": "count", "args": [inner]}, "r": {"t": "lit", "v": k}}}


# [?$..a] / [?count($..*) > K]: the same, anchored at the root of the query argument
EMBEDDED_ROOT_DESC_FILTER = {"t": "filter", "e": {"t": "root", "q": {"segs": [{"k": "desc", "sels": [{"t": "name", "v": "a"}], "sh": True}]}}}
def embedded_root_count_filter(k: int) -> Dict[str, Any]:
    inner = {"t": "root", "q": {"segs": [{"k": "desc", "sels": [{"t": "wild"}], "sh": True}]}}
    return {"t": "filter", "e": {"t": "cmp", "op": ">", "l": {"t": "call", "name": "count", "args": [inner]}, "r": {"t": "lit", "v": k}}}


PREFIX_SELS = [{"t": "wild"}, {"t": "name", "v": "a"}, {"t": "index", "v": 0}, {"t": "index", "v": -1}]


def gen_scenario(rng, tier: str) -> Dict[str, Any]:
    r = rng.random()
    nondet = rng.random() < 0.7
    if r < 0.62:
        # chain around the limit
        lr = rng.random()
        if lr < 0.55:
            L = rng.randint(1, 12)
        elif lr < 0.86:
            L = rng.choice((50, 100, 100, 150, 300))
        elif lr < 0.93:
            # the gaps: any limit, powers of two, and the neighbourhood of the interpreter's own
            # recursion limit (1000 by default), where "configured" and "interpreter" limits meet
            L = rng.choice((rng.randint(13, 49), rng.randint(13, 49), 64, 128, 256, rng.randint(301, 900), 940, 970, 985, 990, 995, 998, 999, 1000, 1001, 1010))
        elif tier == "thorough":
            L = rng.choice((2000, 1500, 1200))
        else:
            L = 100
        npre = rng.choice((0, 0, 0, 1, 2))
        delta = rng.choice((-2, -1, 0, 0, 0, 1, 1, 1, 2, 3))
        nest = max(1, L + delta)
        if rng.random() < 0.02:
            import sys as _sys

            L = rng.choice((10_001, 10**6, 10**9, _sys.maxsize))  # a huge limit over shallow data
            nest = rng.randint(1, 12)
        total = nest + npre
        mix = rng.choice(("l", "d", "ld", "dl", "rand"))
        kinds = "".join(rng.choice("ld") for _ in range(total)) if mix == "rand" else (mix * total)[:total]
        bottom = rng.choice(("scalar", "empty"))
        sib = []
        for _ in range(rng.choice((0, 0, 1, 2, 3))):
            sib.append((rng.randrange(total), rng.choice(("first", "last")), rng.choice(("scalar", "list", "dict"))))
        spec = chain_spec(kinds, bottom, sib)
        shape = {"class": "chain", "kinds": mix, "bottom": bottom, "siblings": len(sib), "npre": npre}
        chain = {"kinds": kinds, "bottom": bottom, "sib": [list(x) for x in sib], "npre": npre, "delta": nest - L}
        # prefix navigates the deep path: name 'a' on objects; on arrays the
        # deep child's index depends on siblings -> use wildcard there
        segs = []
        for i in range(npre):
            if kinds[i] == "d":
                sel = rng.choice(({"t": "name", "v": "a"}, {"t": "wild"}))
            else:
                sel = {"t": "wild"}
            segs.append({"k": "child", "sels": [sel], "sh": rng.random() < 0.5})
    elif r < 0.65:
        # wide, shallow data: hundreds or thousands of containers, nesting 2 or 3
        n = rng.choice((300, 2100, 5200) if tier != "thorough" else (300, 2100, 5200, 12000, 26000))
        L = rng.choice((2, 3, 5, 5, 100))
        spec, nest = wide_spec(rng, n)
        shape = {"class": "wide", "n": n, "nesting": nest}
        segs = []
        if rng.random() < 0.2:
            segs.append({"k": "child", "sels": [{"t": "wild"}], "sh": False})
    else:
        if r < 0.76:
            spec, branching = random_cyclic(rng)
            shape = {"class": "cyclic-branching" if branching else "cyclic", "name": "random"}
            name = "random-branching" if branching else "random"
        elif r < 0.88:
            name = rng.choice(sorted(CYCLIC))
            spec = CYCLIC[name]
            shape = {"class": "cyclic-branching" if name in BRANCHING else "cyclic", "name": name}
        if r < 0.88:
            if name in BRANCHING or name == "random-branching":
                L = rng.choice((1, 2, 3, 4, 5, 6, 50, 100, 100, 300))
            else:
                L = rng.choice((1, 2, 3, 5, 8, 12, 50, 100, 100, 300))
        else:
            if rng.random() < 0.35:
                name = rng.choice(sorted(DAGS))
                spec = DAGS[name]
                L = rng.choice((1, 2, 3, 4, 5, 100))
            else:
                name = "random"
                spec = random_dag(rng)
                # the limit sits around the nesting of the value (that of its deepest occurrence)
                nest = int(N.nesting(D.build(spec)))
                L = max(1, nest + rng.choice((-2, -1, -1, 0, 0, 0, 1, 2)))
            shape = {"class": "dag", "name": name}
            if rng.random() < 0.15:
                # limits far beyond any data: nothing may treat "huge limit" as a mode of its own
                import sys as _sys

                L = rng.choice((10_000, 10_001, 10**6, 10**9, _sys.maxsize))
        segs = []
        if rng.random() < 0.3:
            segs.append({"k": "child", "sels": [rng.choice(PREFIX_SELS)], "sh": False})
    if rng.random() < 0.12 and L <= 150:
        # the descendant segment sits inside a filter: applied to each child of the input node
        pool = [EMBEDDED_DESC_FILTER, embedded_count_filter(rng.choice((0, 0, 1, 3)))]
        if shape["class"] != "wide":
            # (a root-anchored walk per child is quadratic in the document: small documents only)
            pool += [EMBEDDED_ROOT_DESC_FILTER, embedded_root_count_filter(rng.choice((0, 0, 1, 3)))]
        segs.append({"k": "child", "sels": [rng.choice(pool)], "sh": False})
    else:
        segs.append({"k": "desc", "sels": rng.choice(DESC_SELS), "sh": rng.random() < 0.5})
        if rng.random() < 0.25:
            segs.append({"k": "child", "sels": [rng.choice(PREFIX_SELS)], "sh": False})
        elif rng.random() < 0.08 and L <= 60:
            segs.append({"k": "desc", "sels": rng.choice(DESC_SELS[:3]), "sh": rng.random() < 0.5})
    sc = {"L": L, "nondet": nondet, "spec": spec, "shape": shape, "query": {"segs": segs}, "config": rng.choice(CONFIG_MODES)}
    # how the query is applied: "always completes / always raises" is a statement about every
    # application, not just the first one of a freshly compiled query
    if rng.random() < 0.3 and shape["class"] != "wide":
        sc["plan"] = {
            "warm": rng.choice((None, None, "good", "bad", "subtree", "subtree")),  # the compiled query meets another document first / other queries visit parts of this one
            "entries": [rng.choice(("find", "find", "finditer", "env.find")) for _ in range(rng.choice((2, 2, 3)))],
        }
        if rng.random() < 0.4:
            sc["plan"]["abandon"] = rng.choice(("find_one", "partial"))
        if rng.random() < 0.3 and shape["class"] in ("chain", "dag") and L <= 150:
            sc["plan"]["mutate"] = rng.choice(("deepen", "cycle"))
    if shape["class"] == "chain":
        sc["chain"] = chain
    return sc


# ---------------------------------------------------------------------------
# one scenario
# ---------------------------------------------------------------------------
def evaluate(sc: Dict[str, Any], sseed: int, profile: Dict[str, Any], feed: Optional[list] = None) -> Dict[str, Any]:
    doc = D.build(sc["spec"])
    qast = sc["query"]
    text = Q.render(qast)
    L = sc["L"]
    exp = N.expected(qast, doc, L)
    work = exp.get("work", 0)
    # Evaluation is a lazy pipeline: before the segment that must raise gets to the offending
    # node, the segments after it may already have processed everything yielded so far, and a
    # child segment costs something per input node even when it selects nothing.  Bounded time
    # is therefore judged against the size of the data times the number of segments (for cyclic
    # data: the part within the limit), on top of the reference walk's own work.
    gsize = len(sc["spec"]["graph"]) if "graph" in sc["spec"] else D.count_nodes(doc)
    factor = 1 if exp.get("max_nesting") != N.INF else min(L, 300)
    # ... and against the size of what a node IS: every node carries its location, which is as
    # long as the node is deep, so building (or rendering) the locations of a chain costs the
    # square of its depth -- in C for a tree that concatenates tuples, in counted Python steps
    # for one that builds them in a loop.
    mn_ = exp.get("max_nesting")
    dq = int(min(L, mn_ if mn_ != N.INF else L)) ** 2
    cap = max(300_000, 400 * (work + gsize * len(qast["segs"]) * factor) + 8 * dq * len(qast["segs"]))
    sim = simrandom.SimRandom(sseed, profile, feed)
    simrandom.install(sim)
    env = env_for(L, sc["nondet"], sc.get("config", "class"))
    clock = StepClock(cap)
    obs: Dict[str, Any]
    plan = sc.get("plan")
    applications = 0

    def one(call: Any) -> Dict[str, Any]:
        try:
            nodes = list(call())
            return {"status": "ok", "nodes": nodes}
        except StepBudgetExceeded:
            return {"status": "step-budget"}
        except jp.JSONPathRecursionError:
            return {"status": "raise"}
        except RecursionError:
            return {"status": "interpreter-RecursionError"}
        except MemoryError:
            return {"status": "MemoryError"}
        except Exception as exc:  # noqa: BLE001
            return {"status": f"other:{type(exc).__name__}"}

    try:
        with clock:
            if plan is None:
                obs = one(lambda: env.find(text, doc))
                applications = 1
            else:
                # one compiled query, applied again and again to the same document object (and, first,
                # perhaps to another one that completes, or to another one that must raise): every
                # application is judged; the first that deviates is reported
                try:
                    compiled = env.compile(text)
                except Exception as exc:  # noqa: BLE001
                    compiled = None
                    obs = {"status": f"other:{type(exc).__name__}"}
                if compiled is not None:
                    if plan.get("warm") == "good":
                        one(lambda: compiled.find({"a": [1, {"a": 2}], "b": {"a": [3]}}))
                    elif plan.get("warm") == "bad":
                        loop: List[Any] = [1]
                        loop.append({"a": loop})
                        one(lambda: compiled.find(loop))
                    elif plan.get("warm") == "subtree":
                        # other queries on the same environment visit PARTS of the same document object
                        # first (a traversal of a subtree says nothing about the rest of the document)
                        for wq in ("$.b..*", "$[0]..*", "$[-1]..*", "$.c..*", "$.*..[0]"):
                            clock.steps = 0
                            one(lambda wq=wq: env.find(wq, doc))
                    clock.steps = 0
                    if plan.get("abandon") == "find_one":
                        one(lambda: [compiled.find_one(doc)][:0])
                    elif plan.get("abandon") == "partial":
                        def _partial() -> List[Any]:
                            it = iter(compiled.finditer(doc))
                            next(it, None)
                            close = getattr(it, "close", None)
                            if close is not None:
                                close()  # (explicitly, so that nothing is finalised behind our back)
                            del it
                            return []
                        one(_partial)
                    clock.steps = 0
                    if plan.get("mutate") and isinstance(doc, (list, dict)):
                        # the CALLER changes the document in place (deeper than the limit, or circular)
                        # between two applications of the compiled query: what an earlier evaluation
                        # -- completed or abandoned -- found out about it no longer holds
                        extra: Any = doc if plan["mutate"] == "cycle" else 1
                        if plan["mutate"] == "deepen":
                            for _ in range(L + 2):
                                extra = [extra]
                        if isinstance(doc, list):
                            doc.append(extra)
                        else:
                            doc["zz"] = extra
                        exp = N.expected(qast, doc, L)
                        mn2 = exp.get("max_nesting")
                        f2 = 1 if mn2 != N.INF else min(L, 300)
                        clock.cap = cap = max(cap, 400 * (exp.get("work", 0) + (gsize + L + 2) * len(qast["segs"]) * f2) + 8 * L * L * len(qast["segs"]))
                    obs = {"status": "ok", "locs": []}
                    for k, entry in enumerate(plan["entries"]):
                        clock.steps = 0  # each application has the budget of one
                        if entry == "find":
                            obs = one(lambda: compiled.find(doc))
                        elif entry == "finditer":
                            obs = one(lambda: compiled.finditer(doc))
                        else:
                            obs = one(lambda: env.find(text, doc))
                        saved, cap0 = clock.steps, clock.cap
                        clock.cap = 1 << 62  # the harness reading the result is not the evaluation
                        _locs_of(obs)
                        clock.steps, clock.cap = saved, cap0
                        applications = k + 1
                        obs["application"] = k + 1
                        obs["entry"] = entry
                        ok_status = obs["status"] == exp.get("status")
                        if exp.get("status") == "ok" and ok_status:
                            if sc["nondet"]:
                                ok_status = Counter(map(tuple, obs["locs"])) == Counter(map(tuple, exp["locs"]))
                            else:
                                ok_status = obs["locs"] == exp["locs"]
                        if not ok_status:
                            break
    finally:
        simrandom.uninstall()
    _locs_of(obs)
    return {"text": text, "exp": exp, "obs": obs, "steps": clock.steps, "cap": cap, "trace": sim.log, "applications": applications}


def _locs_of(obs: Dict[str, Any]) -> None:
    """Read the locations of the result nodes -- the harness's own reading of the result, outside
    the clocked evaluation."""
    if "nodes" in obs:
        obs["locs"] = [list(n.location) for n in obs.pop("nodes")]


def judge(sc: Dict[str, Any], ev: Dict[str, Any]) -> Optional[Tuple[str, str]]:
    """Return (class, what) of a violation or None."""
    exp, obs = ev["exp"], ev["obs"]
    if exp["status"] == "unknown":
        return None
    mode = "nondet" if sc["nondet"] else "det"
    head = f"{ev['text']} limit={sc['L']} mode={mode} shape={sc['shape']} max_nesting={exp['max_nesting']}"
    if obs.get("application"):
        head += f" [application #{obs['application']} of one compiled query, via {obs['entry']}" + (f", after a {sc['plan']['warm']} document" if sc["plan"].get("warm") else "") + "]"
    if obs["status"] != exp["status"]:
        return (f"{exp['status']}->{obs['status']}", f"{head}: expected {exp['status']}, observed {obs['status']} after {ev['steps']} steps (cap {ev['cap']})")
    if exp["status"] == "ok":
        if sc["nondet"]:
            same = Counter(map(tuple, obs["locs"])) == Counter(map(tuple, exp["locs"]))
        else:
            same = obs["locs"] == exp["locs"]
        if not same:
            return ("ok->wrong-result", f"{head}: completed with {len(obs['locs'])} nodes, reference has {len(exp['locs'])} (or different order)")
    return None


def signature(sc: Dict[str, Any], ev: Dict[str, Any], cls: str) -> str:
    mode = "nondet" if sc["nondet"] else "det"
    sh = sc["shape"]
    mn = ev["exp"]["max_nesting"]
    delta = "inf" if mn == N.INF else int(mn - sc["L"])
    if isinstance(delta, int) and delta > 3:
        delta = ">3"
    lim = "L>=1000" if sc["L"] >= 1000 else ("L~1000" if sc["L"] >= 900 else "L<1000")
    parts = [f"C18:{mode}:{cls}", f"shape={sh['class']}", f"nesting-L={delta}", lim]
    if sh["class"] == "chain":
        parts.append(f"bottom={sh['bottom']}")
    if sh["class"] == "wide":
        parts.append(f"n={sh['n']}")
    return ":".join(parts)


def run_scenario(sc: Dict[str, Any], sseed: int, profile: Dict[str, Any], feed: Optional[list] = None) -> Dict[str, Any]:
    ev = evaluate(sc, sseed, profile, feed)
    v = judge(sc, ev)
    viols = []
    if v is not None:
        cls, what = v
        payload = {"scenario": sc, "stream": {"seed": sseed, "profile": profile, "trace": ev["trace"] if len(ev["trace"]) < 4000 else None}}
        viols.append({"class": cls, "signature": signature(sc, ev, cls), "what": what, "payload": payload})
    return {"ev": ev, "violations": viols}


def run_one(seed: int, tier: str, index: int) -> Dict[str, Any]:
    wl = seeds.stream(seed, "workload")
    ch = seeds.stream(seed, "choices")
    sc = gen_scenario(wl, tier)
    profile = simrandom.draw_profile(ch)
    sseed = ch.getrandbits(48)
    res = run_scenario(sc, sseed, profile)
    ev = res["ev"]
    st: Counter = Counter()
    mode = "nondet" if sc["nondet"] else "det"
    st[f"mode_{mode}"] += 1
    st[f"shape_{sc['shape']['class']}"] += 1
    st[f"limit_configured_{sc.get('config', 'class')}"] += 1
    if sc.get("plan"):
        st["scenarios_with_repeated_application"] += 1
        st["applications_of_a_reused_compiled_query"] += ev.get("applications", 0)
    st[f"expected_{ev['exp']['status']}"] += 1
    st[f"observed_{ev['obs']['status']}"] += 1
    st["decisions"] += len(ev["trace"])
    if sc["L"] >= 1000:
        st["limit_ge_1000"] += 1
    mn = ev["exp"].get("max_nesting", 0)
    near = mn == N.INF or abs(mn - sc["L"]) <= 3
    if mn != N.INF and mn == sc["L"]:
        st["probe_nesting_eq_limit"] += 1
    if mn != N.INF and mn == sc["L"] + 1:
        st["probe_nesting_eq_limit_plus_1"] += 1
    tr = ev["trace"]
    coins = [t[2] for t in tr if t[0] == "choice"]
    if coins and all(c == 0 for c in coins):
        st["probe_coin_stream_all_first"] += 1
    if coins and all(c == 1 for c in coins):
        st["probe_coin_stream_all_second"] += 1
    events = [sc["L"], mode, sc["shape"], ev["text"], ev["obs"]["status"], ev["steps"], seeds.digest(ev["obs"].get("locs")), seeds.digest(tr)]
    sig = None
    if near:
        sig = seeds.digest([sc["L"], mode, sc["shape"], str(mn), ev["text"], ev["obs"]["status"], seeds.digest(tr)])
    sample = None
    if index % 2003 == 0:
        sample = {"L": sc["L"], "mode": mode, "shape": sc["shape"], "query": ev["text"], "max_nesting": str(mn), "expected": ev["exp"]["status"], "observed": ev["obs"]["status"], "steps": ev["steps"], "decisions": len(tr)}
    return {"digest": seeds.digest(events), "sig": sig, "stats": dict(st), "steps": ev["steps"], "violations": res["violations"], "sample": sample}


def replay(payload: Dict[str, Any]) -> List[Dict[str, Any]]:
    worker_init()
    s = payload["stream"]
    return run_scenario(payload["scenario"], s["seed"], s["profile"], s.get("trace"))["violations"]


def shrink_candidates(payload: Dict[str, Any]):
    sc, s = payload["scenario"], payload["stream"]
    # a smaller limit with the same distance between nesting and limit; fewer siblings
    ch = sc.get("chain")
    if ch:
        for L2 in (1, 2, 3, 5, 10, 30):
            nest = max(1, L2 + ch["delta"])
            total = nest + ch["npre"]
            if L2 < sc["L"] and total >= 1:
                kinds = (ch["kinds"] * (total // max(1, len(ch["kinds"])) + 1))[:total]
                sib = [x for x in ch["sib"] if x[0] < total]
                ch2 = {**ch, "kinds": kinds, "sib": sib}
                yield {**payload, "scenario": {**sc, "L": L2, "spec": chain_spec(kinds, ch["bottom"], [tuple(x) for x in sib]), "chain": ch2}, "stream": {**s, "trace": None}}
        for i in range(len(ch["sib"])):
            sib = ch["sib"][:i] + ch["sib"][i + 1 :]
            yield {**payload, "scenario": {**sc, "spec": chain_spec(ch["kinds"], ch["bottom"], [tuple(x) for x in sib]), "chain": {**ch, "sib": sib}}}
    # drop prefix/suffix segments, simplify selectors
    q = sc["query"]
    for q2 in Q.shrink_query(q):
        ndesc = sum(1 for g in q2["segs"] if g["k"] == "desc") + sum(1 for g in q2["segs"] for x in g["sels"] if N.is_embedded_desc(x))
        if ndesc >= 1 and not (ch and len([g for g in q2["segs"] if g["k"] == "child"]) < len([g for g in q["segs"] if g["k"] == "child"]) and ch["npre"]):
            yield {**payload, "scenario": {**sc, "query": q2}}
    # schedule reduction
    tr = s.get("trace") or []
    for i, ent in enumerate(tr[:200]):
        if ent[0] == "choice" and ent[2] != 0:
            t2 = [list(e) for e in tr]
            t2[i] = ["choice", ent[1], 0]
            yield {**payload, "stream": {**s, "trace": t2}}
        elif ent[0] in ("shuffle", "sample") and ent[2] != list(range(ent[1])):
            t2 = [list(e) for e in tr]
            t2[i] = [ent[0], ent[1], list(range(ent[1]))]
            yield {**payload, "stream": {**s, "trace": t2}}

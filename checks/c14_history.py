"""C14 -- evaluation is pure and repeatable; queries and environments do not
interfere.

Seeded operation histories over shared and fresh environments (DEFAULT_ENV, a
pool of environments and subclasses, compiled queries, documents, half-consumed
iterators), with injected mid-operation failures (a registered function that
raises on a scheduled call, recursion-limit errors after some nodes, regex cache
eviction).  Every judged operation is compared with the pristine solitary run of
the same operation in a zygote-forked interpreter; documents are snapshotted
before/after every operation.
"""

from __future__ import annotations

import copy
from typing import Any
from typing import Dict
from typing import List

from dst import golden
from dst import machine
from dst import sched
from dst import seeds
from dst import simrandom
from gen import docs as D
from gen import queries as Q

PROPERTY = "C14"
LEVEL = "exploration"
STEP_UNIT = "operations executed by the history machine"
RULE = (
    "run = one seeded history of 5-40 operations {new environment / subclass, register function, compile, apply "
    "compiled query (find/apply/finditer/find_one; same object, deep copy, document sharing sub-objects), find via "
    "environment, find via module functions, open/advance/close/drop iterator, arm a function-extension fault} over a "
    "small pool (1-4 queries, 1-3 documents, module env + 1-3 environments) so operations collide; swarm: each run "
    "enables a random subset of op kinds and fault kinds. Each judged op is compared with the pristine solitary run of "
    "its own spec; documents are snapshotted after every op; every judged call is re-run at the end. "
    "distinct_nontrivial counts distinct (call kind, query, outcome) signatures among histories with >= 2 environments "
    "or >= 1 fault fired."
)
ASSUMPTIONS = [
    "the oracle is differential: the same tree in a pristine forked interpreter, through the same entry point; a tree "
    "that is consistently wrong about what a query selects stays silent here (that is C01-C13/C15 territory)",
    "registration is additive (new names only): the library binds function names at evaluation time by design",
    "the outcome of the operation inside which an injected fault fired is not judged; every later operation is",
    "on nondeterministic environments only the multiset of nodes is compared (ordering is C17's business); where the "
    "solitary run ends in an exception (a small max_recursion_depth) only the exception class is compared, not the "
    "nodes delivered before it",
    "exception classes are compared, messages are not",
]
COMPONENTS = {
    "real": ["whole library: lexer, parser, environment, query, segments, selectors, filter evaluator, built-in functions, regex, iregexp_check"],
    "stub": ["user function extensions (probe FilterFunction subclasses, some fault-carrying)", "random.* (SimRandom, pinned)", "regex pattern-cache size knob"],
}

FNAMES = ("f", "g", "h")
SIGS = [
    {"args": ["V"], "ret": "V"}, {"args": ["V"], "ret": "L"}, {"args": ["N"], "ret": "V"}, {"args": ["N"], "ret": "L"},
    {"args": ["N"], "ret": "N"}, {"args": ["L"], "ret": "L"}, {"args": [], "ret": "V"}, {"args": ["V", "V"], "ret": "L"},
    {"args": ["V", "N"], "ret": "V"}, {"args": ["N", "L"], "ret": "L"}, {"args": ["V", "V", "V"], "ret": "V"}, {"args": ["L", "V"], "ret": "N"},
]
ENTRIES = ("find", "apply", "finditer", "find_one")
# queries whose generators get suspended inside interesting frames and whose
# filters look at the root: what stale per-call state would get wrong
SUSPEND_QUERIES = [
    "$..[?@.a]", "$[?@[?@.a > 1]]", "$..[?$.a == @.a]", "$..*", "$..[*, *]", "$[*][?@..a]", "$..[?count(@.*) > 1]",
    "$[?@.a && $..b]", "$..[?match(@.a, 'a.*')]", "$..[?search(@.a, 'a.*')]", "$..[?search(@.b, '[ab]')]", "$..[?match(@.b, '[ab]')]",
    "$[::-1]", "$..[1::-1]", "$[?@ == $[0]]", "$[?@ != $[-1]]", "$..[?@ == $[0]]", "$..[?@[?@ > $.a]]", "$.a..[?@ < 5, 0]",
    "$[?length(@) > 1][?@ != null]", "$..[?count($..*) > length(@)]", "$[?$.b]", "$..[?@ == $.a || @ == $.b]", "$[?$[0] == @[0]]",
    "$..[?value($..a) == @.a]", "$[?@ < $[1]]",
    # a container candidate judged against a scalar elsewhere in the root (what differs between two
    # documents that share the candidate itself)
    "$[?@.a == $.b]", "$[?@.a != $.c]", "$..[?@.a == $.c]", "$[?@[0] == $.c]", "$..[?@.b < $.d]", "$[?@.a == $.b || @.c == $.d]",
    "$.a[?@.a == $.b]", "$..[?@[0] != $.d]", "$[?@.b == $.d]", "$.*[?@.a == $.c]", "$..[?@.c == $.a || @.a == $.d]",
]


# different queries built around one textually equal sub-expression: what an
# "intern / deduplicate equal sub-queries at compile time" optimisation would share
SHARED_SUBEXPR = ("$..a", "$..b", "$.*", "$[*]", "$..*", "$.a[*]", "$..b[*]", "$..[0]", "@..a", "@.*", "@[*]", "@..*")
SHARED_FRAMES = (
    "$[?count({e}) > 1]", "$..[?{e}]", "$[?value({e}) == @.a]", "$.a[?count({e}) > @.b]", "$[?!{e}]", "$[*][?count({e}) > 2 || @.a]",
    "$..[?count({e}) > length(@)]", "$.b[?{e} && @.a]", "$[?count({e}) == count(@.*)]", "$[?{e}, ?count({e}) > 3]",
)


def query_family(rng, n: int) -> List[str]:
    e = rng.choice(SHARED_SUBEXPR)
    frames = list(SHARED_FRAMES)
    rng.shuffle(frames)
    return [f.format(e=e) for f in frames[:n]]


# queries that differ only where a sloppy equality / hash would not look: what "intern equal
# expressions" or "deduplicate equal selectors" would wrongly merge
NEAR_EQUAL = (
    ("$[?@.a == {x}]", ("1", "true", "1.0", "'1'", "null", "0", "false")),
    ("$..[?@ == {x}]", ("1", "true", "1.0", "0", "false", "0.0", "''", "null")),
    ("$[{x}]", ("0", "'0'", "-0", "0:1", "0::1", ":1")),
    ("$[?@ {x} 1]", (">", ">=", "==", "!=", "<", "<=")),
    ("$[?{x}]", ("@.a", "!@.a", "@.a == @.a", "@.a != @.a", "$.a", "@..a")),
    ("$..[{x}]", ("'a'", "'b'", "'a', 'b'", "'b', 'a'", "'a', 'a'", "*")),
    ("$[?length(@.a) == {x}]", ("1", "true", "1.0", "2")),
    ("$[?count(@.*) > {x} && @.a]", ("0", "1", "false")),
)


def near_equal_family(rng, n: int) -> List[str]:
    frame, holes = rng.choice(NEAR_EQUAL)
    hs = list(holes)
    rng.shuffle(hs)
    return [frame.format(x=h) for h in hs[:n]]


# queries that exercise every decoding path of the lexer and parser (escapes in names and
# literals, both quote styles, numbers in every spelling, nested filters and function calls)
RICH_QUERIES = (
    "$[\"\\u0062\"]", "$['a\\'b']", "$[\"a\\\"b\"]", "$[?@.a == 'x\\ny']", "$[?@.b == \"\\u00e9\\t\"]", "$['\\ud83d\\ude00', \"b\"]",
    "$..[?@.a == '\\\\' || @.b == \"\\/\"]", "$[?match(@.a, 'a\\\\.b') && @.b == 'c\\u0064']", "$.a['b', \"\\u0061\"][?@ == 'b\\u0062']",
    "$[?@.a == 1.5e1 || @.b == -0.0 || @.c == 1E2]", "$[1:5:2, -1, 'a']", "$[?length(@.a) > 1 && count(@.*) < 10 && value(@.b) == 'b']",
    "$[?@[?@.a == 'q\\u0071'] && !@.b]", "$..['a', \"b\\u0062\"][?(@.a || @.b) && @ != 'z\\n']",
)
BAD_ESCAPES = ("\\u00zz", "\\ud800", "\\udc00x", "\\u00", "\\q", "\\u001f", "\\", "\\ud83d\\u0041")


def corruptions(rng, q: str, n: int) -> List[str]:
    """Texts that fail to compile at some point INSIDE ``q``: truncated, with a bad escape put
    into a string literal after some of it has been decoded, with a token damaged."""
    out = []
    for _ in range(n):
        r = rng.random()
        if r < 0.35 and len(q) > 2:
            out.append(q[: rng.randrange(2, len(q))])
        elif r < 0.75:
            # a bad escape inside a quoted literal, not at its very start
            spots = [i for i, ch in enumerate(q) if ch in "'\"" and i + 2 < len(q) and q[i + 1] not in "'\"]"]
            if spots:
                i = rng.choice(spots) + 1 + rng.choice((1, 1, 2))
                out.append(q[:i] + rng.choice(BAD_ESCAPES) + q[i:])
            else:
                out.append(q + rng.choice(("'a" + rng.choice(BAD_ESCAPES) + "'", "[")))
        else:
            i = rng.randrange(1, len(q))
            out.append(q[:i] + rng.choice(("\x00", "$", "]]", "((", "'", "\"", "\\", "&", "=", "..")) + q[i + 1 :])
    return out


def graft_spec(rng, base_id: str, base_json: Any) -> Dict[str, Any]:
    """A same-shaped document with other content that shares 1-3 of the base document's own
    containers by identity (children of the root preferred: they are met first)."""
    conts = [loc for loc, _v in _containers(base_json) if loc]
    top = [loc for loc in conts if len(loc) == 1]
    share = []
    if top and rng.random() < 0.8:
        share.append(list(top[0] if rng.random() < 0.6 else rng.choice(top)))
    for _ in range(rng.choice((0, 1, 2))):
        if conts:
            share.append(list(rng.choice(conts)))
    return {"graft_of": base_id, "json": perturb(rng, copy.deepcopy(base_json)), "share": share}


def perturb(rng, v: Any) -> Any:
    """Same shape, different content."""
    if isinstance(v, list):
        return [perturb(rng, x) for x in v]
    if isinstance(v, dict):
        return {k: perturb(rng, x) for k, x in v.items()}
    r = rng.random()
    if r < 0.2:
        return near_scalar(rng, v)
    if r < 0.55:
        return D.scalar(rng)
    return v


# JSON-distinct values that Python's == and hash() do not tell apart
NEAR_GROUPS = ((1, True, 1.0), (0, False, 0.0, -0.0), (2, 2.0), (10, 10.0, 1e1))


def near_scalar(rng, v: Any) -> Any:
    for g in NEAR_GROUPS:
        if any(v == x for x in g) and not isinstance(v, str) and v is not None:
            others = [x for x in g if type(x) is not type(v) or repr(x) != repr(v)]
            return rng.choice(others)
    return v


ISOLATE = "run"  # every run in its own fork of the (never used) worker: pristine process state


def worker_init() -> None:
    golden.start()


def export_state() -> Dict[str, Any]:
    return golden.export_new()


def import_state(st: Dict[str, Any]) -> None:
    golden.import_new(st)


def plan(tier: str) -> Dict[str, Any]:
    if tier == "thorough":
        return {"runs": 400_000, "chunk": 100, "budget_s": 780, "chunk_hard_s": 900, "minimise_s": 90}
    return {"runs": 4_500, "chunk": 50, "budget_s": 50, "chunk_hard_s": 300, "minimise_s": 40}


def gen_fspec(rng) -> Dict[str, Any]:
    s = dict(rng.choice(SIGS))
    s["behav"] = rng.choice(("first", "const", "shape", "shape", "typed", "reenter", "poke"))
    if s["behav"] == "reenter":
        s["rq"] = rng.choice(("$..a", "$[?@.a]", "$..[?@ > 1]", "$.b.*"))
    return s


def _features_for(envspec: Dict[str, Any], rng) -> Q.Features:
    fns = dict(Q.BUILTINS)
    for name, fs in (envspec.get("setup") or []) + (envspec.get("funcs") or []):
        fns[name] = (tuple(fs["args"]), fs["ret"])
    return Q.Features(functions=fns, max_segs=rng.choice((1, 2, 3, 4)), nested=rng.choice((1, 2, 2)), roots=rng.random() < 0.8)


def _containers(v: Any, loc: tuple = ()):
    if isinstance(v, (list, dict)):
        yield loc, v
        for k, c in (v.items() if isinstance(v, dict) else enumerate(v)):
            yield from _containers(c, loc + (k,))


def gen_mutation(rng, shadow: Dict[str, Any]):
    """A caller-side in-place change of one plain document (applied to the shadow copy too)."""
    did = rng.choice(sorted(shadow))
    conts = list(_containers(shadow[did]))
    if not conts:
        return None
    loc, c = conts[0] if rng.random() < 0.5 else rng.choice(conts)
    value = rng.choice((D.scalar(rng), D.scalar(rng), [D.scalar(rng)], {"a": D.scalar(rng)}))
    if isinstance(c, dict):
        r = rng.random()
        if r < 0.5 and c:
            op = {"action": "set", "key": rng.choice(sorted(c)), "value": value}
            c[op["key"]] = copy.deepcopy(value)
        elif r < 0.75:
            op = {"action": "set", "key": rng.choice(Q.KEYS), "value": value}
            c[op["key"]] = copy.deepcopy(value)
        elif c:
            op = {"action": "del", "key": rng.choice(sorted(c))}
            del c[op["key"]]
        else:
            return None
    else:
        r = rng.random()
        if r < 0.4:
            op = {"action": "append", "value": value}
            c.append(copy.deepcopy(value))
        elif r < 0.8 and c:
            op = {"action": "set", "key": rng.randrange(len(c)), "value": value}
            c[op["key"]] = copy.deepcopy(value)
        elif c:
            op = {"action": "pop"}
            c.pop()
        else:
            return None
    return {"op": "mutate_doc", "doc": did, "path": list(loc), **op}


def _universe() -> List[str]:
    """A fixed universe of ~420 cheap, distinct, valid query texts (independent of any seed, so
    golden results are shared between long histories through the worker's memo)."""
    out = []
    names = ("a", "b", "c", "d")
    for a in names:
        out += [f"$.{a}", f"$..{a}", f"$['{a}']", f"$[?@.{a}]", f"$.{a}[0]", f"$.{a}.*", f"$..{a}[*]", f"$[?@.{a} > 1]", f"$[?@.{a} == 'a']", f"$.{a}[-1]"]
        for b in names:
            out += [f"$.{a}.{b}", f"$..{a}.{b}", f"$.{a}[?@.{b}]", f"$['{a}', '{b}']", f"$.{a}..{b}", f"$[?@.{a} == @.{b}]", f"$[?@.{a} < $.{b}]"]
            for c in names:
                out.append(f"$.{a}.{b}.{c}")
                out.append(f"$[?@.{a} && @.{b} || @.{c}]")
    for a in names:
        for b in names:
            for i in (0, 1, -1):
                out += [f"$.{a}[{i}].{b}", f"$..{a}[{i}]['{b}']", f"$.{a}.{b}[{i}:]", f"$[?@.{a}[{i}] == @.{b}]", f"$.{a}[?@[{i}] != $.{b}]"]
    for i in range(-3, 4):
        out += [f"$[{i}]", f"$..[{i}]", f"$[{i}:]", f"$[:{i}]", f"$[?@[{i}]]"]
        for j in (1, 2, -1):
            out += [f"$[{i}::{j}]", f"$[{i}, {j}]"]
    seen, uniq = set(), []
    for q in out:
        if q not in seen:
            seen.add(q)
            uniq.append(q)
    return uniq


UNIVERSE = _universe()


def gen_long_history(rng, thorough: bool = False) -> Dict[str, Any]:
    """VOLUME within one process: hundreds of compiles of several hundred distinct texts, with
    repeats, over one small document and two environments -- what bounded caches, periodic
    clean-ups and growing tables need before their eviction/overflow paths run."""
    ops: List[Dict[str, Any]] = []
    tree = D.random_tree(rng, max_nodes=20, max_depth=3, p_dict=0.7)
    if not isinstance(tree, dict):
        tree = {"a": tree, "b": [1, {"a": "a"}], "c": {"a": 1, "b": 2}}
    ops.append({"op": "new_doc", "id": "d0", "spec": {"json": tree}})
    ops.append({"op": "new_env", "id": "e0", "spec": {"funcs": []}})
    envs = ["module", "e0"]
    pool = list(UNIVERSE)
    rng.shuffle(pool)
    pool = pool[: rng.choice((140, 300, 560) if not thorough else (300, 560, len(pool)))]
    hot = pool[: rng.choice((3, 10, 40))]  # texts that are compiled again and again
    n = rng.choice((300, 600, 900) if not thorough else (900, 1800, 2600))
    k = 0
    for _ in range(n):
        q = rng.choice(hot) if rng.random() < 0.35 else rng.choice(pool)
        e = rng.choice(envs)
        r = rng.random()
        if r < 0.75:
            ops.append({"op": "compile", "id": f"c{k}", "env": e, "q": q})
            if rng.random() < 0.25:
                ops.append({"op": "apply", "c": f"c{k}", "doc": "d0", "entry": "find"})
            k += 1
        else:
            ops.append({"op": "env_call", "env": e, "q": q, "doc": "d0", "entry": rng.choice(("find", "find_one"))})
    return {"knobs": {"regex_maxcache": None}, "ops": ops, "faults": False, "long": True}


def gen_history(rng, faults: bool) -> Dict[str, Any]:
    ops: List[Dict[str, Any]] = []
    knobs = {"regex_maxcache": rng.choice((1, 2, 5, None, None))}
    # documents
    ndocs = rng.choice((1, 2, 2, 3))
    docs = []
    shadow: Dict[str, Any] = {}  # generator-side copy of plain documents (for caller mutations)
    for i in range(ndocs):
        did = f"d{i}"
        if i > 0 and rng.random() < 0.25:
            src = rng.choice(docs)
            shadow.pop(src, None)
            if rng.random() < 0.4 and src == "d0":
                ops.append({"op": "new_doc", "id": did, "spec": {"member_of": src, "pick": rng.randrange(64)}})
            else:
                ops.append({"op": "new_doc", "id": did, "spec": {"wrap": src, "as": rng.choice(("list", "dict"))}})
        elif i > 0 and rng.random() < 0.4:
            base = next(o for o in ops if o["op"] == "new_doc" and "json" in o["spec"])["spec"]["json"]
            if rng.random() < 0.4:
                ops.append({"op": "new_doc", "id": did, "spec": graft_spec(rng, "d0", base)})
                shadow.pop("d0", None)  # (the caller does not mutate documents that share objects)
            else:
                tree = perturb(rng, copy.deepcopy(base))
                ops.append({"op": "new_doc", "id": did, "spec": {"json": tree}})
                shadow[did] = copy.deepcopy(tree)
        else:
            tree = D.random_tree(rng, max_nodes=rng.choice((6, 12, 25, 60)), max_depth=rng.choice((3, 5, 8)))
            ops.append({"op": "new_doc", "id": did, "spec": {"json": tree}})
            shadow[did] = copy.deepcopy(tree)
        docs.append(did)
    # environments: specs are tracked here so the query generator knows the registries
    envspecs: Dict[str, Dict[str, Any]] = {"module": {"module": True}}
    nenvs = rng.choice((1, 1, 2, 3))
    for i in range(nenvs):
        eid = f"e{i}"
        spec: Dict[str, Any] = {}
        r = rng.random()
        if r < 0.5:
            attrs: Dict[str, Any] = {}
            if rng.random() < 0.35:
                attrs["nondeterministic"] = True
                if rng.random() < 0.3:
                    attrs["max_recursion_depth"] = rng.choice((2, 3, 5))
            elif rng.random() < 0.5:
                attrs["max_recursion_depth"] = rng.choice((2, 3, 5, 100))
            if rng.random() < 0.3:
                attrs["max_int_index"] = rng.choice((1, 2, 2**53 - 1))
                attrs["min_int_index"] = rng.choice((-1, -2, -(2**53) + 1))
            if attrs:
                spec["attrs"] = attrs
            if rng.random() < 0.4:
                spec["setup"] = [[rng.choice(FNAMES), gen_fspec(rng)]]
        spec["funcs"] = []
        ops.append({"op": "new_env", "id": eid, "spec": copy.deepcopy(spec)})
        envspecs[eid] = spec
    envs = sorted(envspecs)
    enabled = {k for k in ("register", "compile", "apply", "env_call", "module_call", "iter", "copy", "invalid", "late_env", "mutate") if rng.random() < 0.8}
    enabled |= {"compile", "apply"}
    use_faults = faults and rng.random() < 0.9
    # query pool (generated against a random environment's registry -> name/type collisions)
    qpool: List[str] = []

    def new_query() -> str:
        if "invalid" in enabled and rng.random() < 0.15:
            return rng.choice(Q.INVALID_TEXTS)
        if rng.random() < 0.3:
            return rng.choice(SUSPEND_QUERIES)
        e = rng.choice(envs)
        return Q.render(Q.gen_query(rng, _features_for(envspecs[e], rng), 0, 1))

    fam = rng.random()
    if fam < 0.3:
        qpool.extend(query_family(rng, rng.choice((2, 3))))
    elif fam < 0.45:
        qpool.extend(near_equal_family(rng, rng.choice((2, 3, 4))))
    for _ in range(rng.choice((1, 2, 3, 4))):
        q = new_query()
        qpool.append(q)
        # the twin through the other regex function: a memo shared by match and search
        if "match(" in q and rng.random() < 0.5:
            qpool.append(q.replace("match(", "search("))
        elif "search(" in q and rng.random() < 0.5:
            qpool.append(q.replace("search(", "match("))
    compiled: List[str] = []
    iters: List[str] = []
    nops = rng.randint(5, 40)
    inject_at = rng.randrange(nops) if ("iter" in enabled and rng.random() < 0.35) else -1
    clash_at = rng.randrange(nops) if rng.random() < 0.3 else -1
    fail_at = rng.randrange(nops) if rng.random() < 0.3 else -1
    twin_at = rng.randrange(nops) if rng.random() < 0.2 else -1
    gens_at = rng.randrange(nops) if rng.random() < 0.12 else -1
    typed_at = rng.randrange(nops) if rng.random() < 0.12 else -1
    recycle_at = rng.randrange(nops) if rng.random() < 0.12 else -1
    broken_at = rng.randrange(nops) if rng.random() < 0.25 else -1
    family_at = rng.randrange(nops) if rng.random() < 0.15 else -1
    override_at = rng.randrange(nops) if rng.random() < 0.12 else -1
    scalars_at = rng.randrange(nops) if rng.random() < 0.12 else -1
    slices_at = rng.randrange(nops) if rng.random() < 0.18 else -1
    adaptive_at = rng.randrange(nops) if rng.random() < 0.12 else -1
    ngen = 0
    for k in range(nops):
        if k == scalars_at:
            # one compiled query with a scalar-only filter (no function, no root query) applied to a
            # LONG array of numbers, then to values that are Python-equal to some of them but not the
            # same JSON value (true/false vs 1/0, 1.0 vs 1): what is remembered per value must be
            # remembered per JSON value
            q = rng.choice(("$[?@ == 1]", "$[?@ != 0]", "$[?@ >= 1]", "$[?@ == true]", "$[?@ == false || @ == 2]", "$.a[?@ == 1]", "$..[?@ == 0]", "$[?@ < 1 && @ > -1]", "$[?@ == 1.0]", "$[?@ != true]"))
            n = rng.choice((24, 25, 30, 64, 100))
            long_ = [rng.choice((0, 1, 2, 1.0, 0.0, 3)) for _ in range(n)]
            if rng.random() < 0.4:
                long_ = [rng.choice((True, False, 2)) for _ in range(n)]
            short = [True, 1, 1.0, False, 0, 0.0, -0.0, 2, "1", None][: rng.randint(4, 10)]
            rng.shuffle(short)
            ids = []
            for tree in (long_, short, {"a": long_, "b": True}, {"a": short, "b": 1}):
                did = f"d{len(docs)}"
                ops.append({"op": "new_doc", "id": did, "spec": {"json": tree}})
                docs.append(did)
                ids.append(did)
            cid = f"c{len(compiled)}"
            ops.append({"op": "compile", "id": cid, "env": rng.choice(envs), "q": q})
            compiled.append(cid)
            order = [rng.choice(ids) for _ in range(rng.choice((3, 4, 6)))]
            for did in order:
                ops.append({"op": "apply", "c": cid, "doc": did, "entry": rng.choice(("find", "find", "finditer"))})
            continue
        if k == slices_at:
            # one compiled query with an explicit slice (every sign of start, stop and step) applied in
            # turn to arrays whose lengths lie around its bounds -- alone and as rows of one document:
            # what a selector worked out for one array length must not be used for another
            a, b = rng.randint(-5, 6), rng.randint(-5, 6)
            st = rng.choice((-3, -2, -1, -1, 1, 2))
            if rng.random() < 0.4:
                # (a backwards slice between two explicit non-negative bounds)
                a, b, st = rng.randint(2, 6), rng.randint(0, 2), rng.choice((-1, -1, -2))
            sl = rng.choice((f"{a}:{b}:{st}", f"{a}:{b}:{st}", f"{a}::{st}", f":{b}:{st}", f"{a}:{b}"))
            q = rng.choice(("$[%s]", "$[*][%s]", "$..[%s]", "$.a[%s]")) % sl
            lens = sorted({max(0, abs(a) + d) for d in (-1, 0, 1, 2)} | {max(0, abs(b) + d) for d in (-1, 0, 1)} | {0, 7})
            rng.shuffle(lens)
            lens = lens[: rng.choice((3, 4, 6))]
            rows = [[f"r{n}e{i}" for i in range(n)] for n in lens]
            ids = []
            for tree in rows[:3] + [rows, {"a": rows[0], "b": rows[-1]}]:
                did = f"d{len(docs)}"
                ops.append({"op": "new_doc", "id": did, "spec": {"json": tree}})
                docs.append(did)
                ids.append(did)
            cid = f"c{len(compiled)}"
            ops.append({"op": "compile", "id": cid, "env": rng.choice(envs), "q": q})
            compiled.append(cid)
            for _ in range(rng.choice((3, 5, 7))):
                ops.append({"op": "apply", "c": cid, "doc": rng.choice(ids), "entry": rng.choice(("find", "find", "finditer"))})
            continue
        if k == override_at:
            # a plain environment uses a standard function, THEN replaces that function's name on
            # itself (its own earlier queries change meaning by design and are not judged any more):
            # the module-level functions, other plain environments and its own new compiles must
            # each behave as they do alone
            eid = f"g{ngen}"
            ngen += 1
            ops.append({"op": "new_env", "id": eid, "spec": {"funcs": []}})
            name = rng.choice(("length", "count", "value", "match", "search"))
            q = {"length": rng.choice(("$[?length(@.a) == 1]", "$..[?length(@) > 1]")), "count": rng.choice(("$[?count(@.*) > 1]", "$..[?count(@.*) == 1]")), "value": "$[?value(@.*) == 1]", "match": "$..[?match(@.a, 'a.*')]", "search": "$..[?search(@.b, '[ab]')]"}[name]
            sig = {"length": (["V"], "V"), "count": (["N"], "V"), "value": (["N"], "V"), "match": (["V", "V"], "L"), "search": (["V", "V"], "L")}[name]
            if rng.random() < 0.25:
                ops.append({"op": "env_call", "env": "module", "q": q, "doc": rng.choice(docs), "entry": "find"})
            cid = f"c{len(compiled)}"
            ops.append({"op": "compile", "id": cid, "env": eid, "q": q})
            compiled.append(cid)
            if rng.random() < 0.5:
                ops.append({"op": "apply", "c": cid, "doc": rng.choice(docs), "entry": "find"})
            ops.append({"op": "register", "env": eid, "name": name, "override": True, "fspec": {"args": sig[0], "ret": sig[1], "behav": rng.choice(("const", "shape", "const"))}})
            other = f"g{ngen}"
            ngen += 1
            ops.append({"op": "new_env", "id": other, "spec": {"funcs": []}})
            users = [("module", "env_call"), (other, "env_call"), (other, "compile"), (eid, "compile"), ("module", "compile")]
            rng.shuffle(users)
            for e, how in users[: rng.choice((3, 4, 5))]:
                d = rng.choice(docs)
                if how == "env_call":
                    ops.append({"op": "env_call", "env": e, "q": q, "doc": d, "entry": rng.choice(("find", "finditer", "find_one"))})
                else:
                    cid = f"c{len(compiled)}"
                    ops.append({"op": "compile", "id": cid, "env": e, "q": q})
                    compiled.append(cid)
                    ops.append({"op": "apply", "c": cid, "doc": d, "entry": "find"})
            continue
        if k == adaptive_at:
            # one compiled query with && / || is applied again and again to data on which one operand
            # decides, then to data on which the OTHER operand would have decided first -- and the one
            # that is now asked first raises (a descendant query over data beyond a small limit, a
            # function that raises).  What a query "learned" from earlier data must not show.
            eid = f"g{ngen}"
            ngen += 1
            ops.append({"op": "new_env", "id": eid, "spec": {"funcs": [], "attrs": {"max_recursion_depth": 3}}})
            q = rng.choice(("$[?@.a && @..b]", "$[?@.a || @..b]", "$[?@..b && @.a]", "$[?@..b || @.a]", "$[?@.a == 1 && @..b]", "$[?@.c > 2 || count(@..b) > 0]", "$[?!@.a && @..b]"))
            warm_kind = rng.random() < 0.5
            n = rng.randint(4, 10)
            warm = [({"a": 1, "c": i} if warm_kind else {"a": 0, "b": 1, "c": i}) for i in range(n)]
            deep: Any = {"b": 1}
            for _ in range(rng.choice((4, 6))):
                deep = {"x": [deep]}
            probes = [[{"a": 0, "x": deep}], [{"x": deep}], [{"a": 1, "b": 1, "x": deep}], [{"a": 1, "c": 5, "x": deep}, {"a": 0}]]
            wid, pid = f"d{len(docs)}", f"d{len(docs) + 1}"
            ops.append({"op": "new_doc", "id": wid, "spec": {"json": warm}})
            ops.append({"op": "new_doc", "id": pid, "spec": {"json": rng.choice(probes)}})
            docs.extend((wid, pid))
            cid = f"c{len(compiled)}"
            ops.append({"op": "compile", "id": cid, "env": eid, "q": q})
            compiled.append(cid)
            if rng.random() < 0.3:
                ops.append({"op": "apply", "c": cid, "doc": pid, "entry": "find"})
            for _ in range(rng.choice((2, 3, 5))):
                ops.append({"op": "apply", "c": cid, "doc": wid, "entry": rng.choice(("find", "find", "finditer"))})
            ops.append({"op": "apply", "c": cid, "doc": pid, "entry": rng.choice(("find", "finditer"))})
            continue
        if k == family_at:
            # an inheritance chain: setup_function_extensions() is written once in a base class and
            # driven by class attributes its subclasses override (other functions, other types under
            # one name, built-ins dropped).  Each member of the family, created in this process next
            # to its siblings, must behave as it does alone
            fam = f"F{k}"
            name = rng.choice(FNAMES)
            rets = ["V", "L", "N"]
            rng.shuffle(rets)
            uses = {"V": "$[?{n}(@.a) == 1]", "L": "$[?{n}(@.a)]", "N": "$[?count({n}(@.a)) > 0]"}
            members = []
            for j in range(rng.choice((2, 2, 3))):
                eid = f"g{ngen}"
                ngen += 1
                spec = {"family": fam, "funcs": []}
                kind = rng.random()
                ret = None
                if kind < 0.7:
                    ret = rets[j % 3]
                    spec["setup"] = [[name, {"args": [rng.choice(("V", "N"))], "ret": ret, "behav": rng.choice(("first", "shape", "const"))}]]
                if rng.random() < 0.5:
                    spec["drop"] = rng.sample(["match", "search", "length", "count", "value"], rng.choice((1, 2)))
                if rng.random() < 0.3:
                    spec["attrs"] = {"max_recursion_depth": rng.choice((3, 5, 100))}
                ops.append({"op": "new_env", "id": eid, "spec": copy.deepcopy(spec)})
                members.append((eid, ret))
            probes = [uses[r].format(n=name) for r in ("V", "L", "N")] + ["$[?length(@.a) == 1]", "$[?match(@.a, 'a')]", "$[?count(@.*) > 0]", "$[?search(@.b, 'b')]", "$[?value(@.a) == 1]"]
            order = [(e, q) for e, _r in members for q in rng.sample(probes, rng.choice((2, 3, 4)))]
            rng.shuffle(order)
            for e, q in order:
                cid = f"c{len(compiled)}"
                ops.append({"op": "compile", "id": cid, "env": e, "q": q})
                compiled.append(cid)
                if rng.random() < 0.4:
                    ops.append({"op": "apply", "c": cid, "doc": rng.choice(docs), "entry": "find"})
            continue
        if k == broken_at:
            # compiles that FAIL at some point inside a query, each followed by a compile of the
            # intact text on the same environment (and by its use): whatever the lexer or parser had
            # in hand when it gave up must not turn up in the next query
            q = rng.choice(RICH_QUERIES) if rng.random() < 0.7 else rng.choice(qpool)
            if len(q) < 4:
                q = rng.choice(RICH_QUERIES)
            e = rng.choice(envs)
            did = f"d{len(docs)}"
            ops.append({"op": "new_doc", "id": did, "spec": {"json": {"b": 1, "a'b": 2, "a\"b": 3, "a": {"a": "x\ny", "b": "b", "bb": 4}, "ab": 5, "\U0001f600": 6, "c": ["bb", "q", {"a": "qq", "b": "\u00e9\t"}]}}})
            docs.append(did)
            if rng.random() < 0.5:
                cid = f"c{len(compiled)}"
                ops.append({"op": "compile", "id": cid, "env": e, "q": q})
                compiled.append(cid)
            for bad in corruptions(rng, q, rng.choice((1, 2, 3))):
                cid = f"c{len(compiled)}"
                ops.append({"op": "compile", "id": cid, "env": e, "q": bad})
                compiled.append(cid)
                q2 = q if rng.random() < 0.7 else rng.choice(RICH_QUERIES)
                if rng.random() < 0.5:
                    cid = f"c{len(compiled)}"
                    ops.append({"op": "compile", "id": cid, "env": e, "q": q2})
                    compiled.append(cid)
                    ops.append({"op": "apply", "c": cid, "doc": did, "entry": "find"})
                else:
                    ops.append({"op": "env_call", "env": e, "q": q2, "doc": did, "entry": rng.choice(("find", "finditer"))})
            continue
        if k == recycle_at:
            # a document is evaluated through a compiled query, then let go of and collected; the
            # next document comes to lie where it was (same address, other content): whatever was
            # remembered about the dead document must not be applied to the living one
            tree = D.random_tree(rng, max_nodes=rng.choice((6, 12, 25)), max_depth=rng.choice((3, 5)))
            if not isinstance(tree, (list, dict)):
                tree = [tree]
            gone = f"x{k}"
            ops.append({"op": "new_doc", "id": gone, "spec": {"json": tree}})
            cids = []
            for _ in range(rng.choice((1, 2))):
                cid = f"c{len(compiled)}"
                q = rng.choice(SUSPEND_QUERIES) if rng.random() < 0.7 else rng.choice(qpool)
                ops.append({"op": "compile", "id": cid, "env": rng.choice(envs), "q": q})
                compiled.append(cid)
                cids.append(cid)
                ops.append({"op": "apply", "c": cid, "doc": gone, "entry": rng.choice(("find", "find", "finditer", "find_one"))})
            if rng.random() < 0.4:
                iid = f"i{len(iters)}"
                ops.append({"op": "iter_open", "id": iid, "c": cids[0], "doc": gone})
                iters.append(iid)
                ops.append({"op": "iter_next", "it": iid, "n": rng.choice((1, 2))})
            ops.append({"op": "forget_doc", "doc": gone})
            did = f"d{len(docs)}"
            t2 = perturb(rng, copy.deepcopy(tree)) if rng.random() < 0.7 else D.random_tree(rng, max_nodes=12, max_depth=3)
            if type(t2) is not type(tree):
                t2 = perturb(rng, copy.deepcopy(tree))
            ops.append({"op": "new_doc", "id": did, "spec": {"json": t2}})
            docs.append(did)
            shadow[did] = copy.deepcopy(t2)
            for cid in cids:
                ops.append({"op": "apply", "c": cid, "doc": did, "entry": rng.choice(("find", "find", "finditer", "find_one"))})
            continue
        if k == gens_at:
            # generations: environments with a function NAME are used, then let go of and collected;
            # new environments register another function under that name (other types).  Nothing the
            # library remembers about the dead may be applied to the living (objects are reallocated
            # where the dead ones were: identity is not a name)
            name = rng.choice(FNAMES)
            r1, r2 = rng.sample(["V", "L", "N"], 2)
            uses = {"V": "$[?{n}(@.a) == 1]", "L": "$[?{n}(@.a)]", "N": "$[?count({n}(@.a)) > 0]"}
            width = rng.choice((1, 2, 4, 8, 16))
            gone = []
            for _ in range(width):
                eid = f"g{ngen}"
                ngen += 1
                fs = {"args": [rng.choice(("V", "N"))], "ret": r1, "behav": rng.choice(("first", "shape", "const"))}
                ops.append({"op": "new_env", "id": eid, "spec": {"funcs": [[name, fs]]}})
                cid = f"c{len(compiled)}"
                ops.append({"op": "compile", "id": cid, "env": eid, "q": uses[r1].format(n=name)})
                compiled.append(cid)
                if rng.random() < 0.3:
                    ops.append({"op": "apply", "c": cid, "doc": rng.choice(docs), "entry": "find"})
                gone.append(eid)
            for eid in gone:
                ops.append({"op": "forget_env", "env": eid})
            for _ in range(width):
                eid = f"g{ngen}"
                ngen += 1
                fs = {"args": [rng.choice(("V", "N"))], "ret": r2, "behav": rng.choice(("first", "shape", "const"))}
                ops.append({"op": "new_env", "id": eid, "spec": {"funcs": [[name, fs]]}})
                for r in (r2, r1) if rng.random() < 0.6 else (r2,):
                    cid = f"c{len(compiled)}"
                    ops.append({"op": "compile", "id": cid, "env": eid, "q": uses[r].format(n=name)})
                    compiled.append(cid)
                    if rng.random() < 0.4:
                        ops.append({"op": "apply", "c": cid, "doc": rng.choice(docs), "entry": "find"})
            continue
        if k == typed_at:
            # one compiled query whose user function tells 1, true and 1.0 apart, applied in turn to
            # documents that differ only in such values: "equal data" means equal JSON, not Python ==
            eid = f"g{ngen}"
            ngen += 1
            ret = rng.choice(("V", "V", "L"))
            ops.append({"op": "new_env", "id": eid, "spec": {"funcs": [["t", {"args": ["V"], "ret": ret, "behav": "typed"}]]}})
            rows = [{"a": rng.choice(rng.choice(NEAR_GROUPS)), "b": rng.choice(rng.choice(NEAR_GROUPS))} for _ in range(rng.randint(2, 5))]
            ids = []
            for variant in range(rng.choice((2, 3))):
                did = f"d{len(docs)}"
                tree = {"a": copy.deepcopy(rows) if variant == 0 else [{kk: near_scalar(rng, vv) for kk, vv in row.items()} for row in rows], "b": 1}
                ops.append({"op": "new_doc", "id": did, "spec": {"json": tree}})
                docs.append(did)
                ids.append(did)
            if ret == "L":
                q = rng.choice(("$.a[?t(@.a)]", "$..[?t(@.b) && @.a]", "$.a[?!t(@.a)]", "$.a[?t(@.a) || t(@.b)]"))
            else:
                q = rng.choice(("$.a[?t(@.a) == 'int:1']", "$..[?t(@.a) == t(@.b)]", "$.a[?t(@.a) != 'bool:True']", "$.a[?t(@.a) == 'float:1.0' || t(@.b) == 'int:0']", "$.a[?t(@.b) < 'c']", "$.a[?t(@.a) == t(1)]", "$.a[?t(@.a) == t(true) || t(@.b) == t(0)]"))
            cid = f"c{len(compiled)}"
            ops.append({"op": "compile", "id": cid, "env": eid, "q": q})
            compiled.append(cid)
            for _ in range(rng.choice((2, 3, 4))):
                ops.append({"op": "apply", "c": cid, "doc": rng.choice(ids), "entry": rng.choice(("find", "find", "finditer", "find_one"))})
            continue
        if k == twin_at:
            # match() and search() with the SAME pattern, on string-rich data, on the same or
            # different environments: whatever the two share (a compiled-pattern memo, say) must
            # not carry one function's reading of the pattern over to the other
            pat = rng.choice(Q.PATTERNS)
            did = f"d{len(docs)}"
            strs = ("a", "b", "&", "|", "~", "ab", "a&b", "aa", "c", "abc", "x", "ba")
            ops.append({"op": "new_doc", "id": did, "spec": {"json": {"a": [rng.choice(strs) for _ in range(rng.randint(3, 8))], "b": {"a": rng.choice(strs), "b": rng.choice(strs)}, "c": rng.choice(strs)}}})
            docs.append(did)
            pair = [f"$..[?match(@, '{pat}')]", f"$..[?search(@, '{pat}')]"]
            rng.shuffle(pair)
            for q in pair + ([pair[0]] if rng.random() < 0.5 else []):
                ops.append({"op": "env_call", "env": rng.choice(envs), "q": q, "doc": did, "entry": rng.choice(("find", "find", "finditer"))})
            continue
        if k == fail_at and len(envs) < 7:
            # a call that FAILS half-way on an environment (a user function raising, or the
            # recursion limit), then lazy and eager calls of a root-referencing query on that
            # environment over two different documents: the failed call must leave nothing behind
            eid = f"e{len(envs)}"
            fs = {"args": ["V"], "ret": "L", "behav": "first"}
            spec = {"funcs": [["f", fs]], "attrs": {"max_recursion_depth": 3}} if rng.random() < 0.5 else {"funcs": [["f", fs]]}
            ops.append({"op": "new_env", "id": eid, "spec": copy.deepcopy(spec)})
            envspecs[eid] = spec
            envs = sorted(envspecs)
            deep = f"d{len(docs)}"
            ops.append({"op": "new_doc", "id": deep, "spec": {"json": {"a": [{"a": 1, "x": [[[[1]]]]}, {"a": 2}], "b": 2}}})
            docs.append(deep)
            if "attrs" in spec and rng.random() < 0.6:
                ops.append({"op": "env_call", "env": eid, "q": "$..x", "doc": deep, "entry": "find"})  # JSONPathRecursionError after some nodes
            else:
                ops.append({"op": "arm_fault", "env": eid, "name": "f", "k": rng.choice((1, 2))})
                ops.append({"op": "env_call", "env": eid, "q": "$.a[?f(@.a)]", "doc": deep, "entry": rng.choice(("find", "find", "finditer"))})
            cid = f"c{len(compiled)}"
            q = rng.choice([x for x in SUSPEND_QUERIES if "$" in x[1:]])
            ops.append({"op": "compile", "id": cid, "env": eid, "q": q})
            compiled.append(cid)
            for _ in range(rng.choice((2, 3))):
                ops.append({"op": "apply", "c": cid, "doc": rng.choice(docs), "entry": rng.choice(("finditer", "find_one", "find", "finditer"))})
            continue
        if k == clash_at and len(envs) < 7:
            # one function NAME, different types on two environments, each compiling the name
            # where its type matters (and, crosswise, where the other's would): whatever the
            # library derives from a function must be per environment, not per name
            name = rng.choice(FNAMES + ("length", "count"))
            rets = rng.sample(["V", "L", "N"], 2)
            two = []
            for ret in rets:
                eid = f"e{len(envs)}"
                fs = {"args": [rng.choice(("V", "N"))], "ret": ret, "behav": rng.choice(("first", "shape", "const"))}
                spec = {"funcs": []}
                if rng.random() < 0.4:
                    spec["setup"] = [[name, fs]]  # registered by a subclass's setup_function_extensions()
                    ops.append({"op": "new_env", "id": eid, "spec": copy.deepcopy(spec)})
                else:
                    ops.append({"op": "new_env", "id": eid, "spec": copy.deepcopy(spec)})
                    ops.append({"op": "register", "env": eid, "name": name, "fspec": fs})
                    spec["funcs"].append([name, fs])
                envspecs[eid] = spec
                envs = sorted(envspecs)
                two.append((eid, ret))
            uses = {"V": "$[?{n}(@.a) == 1]", "L": "$[?{n}(@.a)]", "N": "$[?count({n}(@.a)) > 0]"}
            order = [(e, r) for e, r in two] + [(two[0][0], two[1][1]), (two[1][0], two[0][1])]
            if rng.random() < 0.3:
                order.append(("module", rng.choice(rets)))
            rng.shuffle(order)
            for e, r in order:
                cid = f"c{len(compiled)}"
                ops.append({"op": "compile", "id": cid, "env": e, "q": uses[r].format(n=name)})
                compiled.append(cid)
                if rng.random() < 0.5:
                    ops.append({"op": "apply", "c": cid, "doc": rng.choice(docs), "entry": "find"})
            continue
        if k == inject_at:
            # abandon an iterator half-way, then reuse the same compiled query elsewhere
            cid, iid = f"c{len(compiled)}", f"i{len(iters)}"
            q = rng.choice(SUSPEND_QUERIES) if rng.random() < 0.7 else rng.choice(qpool)
            d1, d2 = rng.choice(docs), rng.choice(docs)
            ops.append({"op": "compile", "id": cid, "env": rng.choice(envs), "q": q})
            compiled.append(cid)
            ops.append({"op": "iter_open", "id": iid, "c": cid, "doc": d1})
            iters.append(iid)
            ops.append({"op": "iter_next", "it": iid, "n": rng.choice((1, 1, 2, 3))})
            ops.append({"op": rng.choice(("iter_close", "iter_drop")), "it": iid})
            ops.append({"op": "apply", "c": cid, "doc": d2, "entry": rng.choice(ENTRIES)})
            continue
        r = rng.random()
        if "mutate" in enabled and shadow and rng.random() < 0.07:
            mop = gen_mutation(rng, shadow)
            if mop is not None:
                ops.append(mop)
                # ... and right away the same compiled query / call again on the changed document
                if compiled and rng.random() < 0.7:
                    ops.append({"op": "apply", "c": rng.choice(compiled), "doc": mop["doc"], "entry": rng.choice(ENTRIES)})
            continue
        if r < 0.12 and "register" in enabled:
            e = rng.choice([x for x in envs if x != "module"])
            name = rng.choice(FNAMES)
            fs = gen_fspec(rng)
            ops.append({"op": "register", "env": e, "name": name, "fspec": fs})
            have = {n for n, _ in (envspecs[e].get("setup") or []) + envspecs[e]["funcs"]}
            if name not in have:
                envspecs[e]["funcs"].append([name, fs])
            if rng.random() < 0.5:
                qpool.append(Q.render(Q.gen_query(rng, _features_for(envspecs[e], rng), 0, 1)))
        elif r < 0.16 and "late_env" in enabled and len(envs) < 6:
            eid = f"e{len(envs)}"
            spec = {"funcs": []}
            if rng.random() < 0.5:
                spec["setup"] = [[rng.choice(FNAMES), gen_fspec(rng)]]
            if rng.random() < 0.3:
                spec["attrs"] = {"nondeterministic": True}
            ops.append({"op": "new_env", "id": eid, "spec": copy.deepcopy(spec)})
            envspecs[eid] = spec
            envs = sorted(envspecs)
        elif r < 0.36:
            cid = f"c{len(compiled)}"
            if rng.random() < 0.3:
                qpool.append(new_query())
            ops.append({"op": "compile", "id": cid, "env": rng.choice(envs), "q": rng.choice(qpool)})
            compiled.append(cid)
        elif r < 0.62 and compiled:
            ops.append({"op": "apply", "c": rng.choice(compiled), "doc": rng.choice(docs), "entry": rng.choice(ENTRIES), "copy": "copy" in enabled and rng.random() < 0.2, "scribble": rng.random() < 0.15})
        elif r < 0.76 and ("env_call" in enabled or "module_call" in enabled):
            if "module_call" in enabled and ("env_call" not in enabled or rng.random() < 0.4):
                e = "module"
            else:
                e = rng.choice(envs)
            ops.append({"op": "env_call", "env": e, "q": rng.choice(qpool), "doc": rng.choice(docs), "entry": rng.choice(ENTRIES), "copy": "copy" in enabled and rng.random() < 0.15})
        elif r < 0.93 and "iter" in enabled:
            rr = rng.random()
            if rr < 0.35 or not iters:
                iid = f"i{len(iters)}"
                if compiled and rng.random() < 0.7:
                    ops.append({"op": "iter_open", "id": iid, "c": rng.choice(compiled), "doc": rng.choice(docs)})
                else:
                    ops.append({"op": "iter_open", "id": iid, "env": rng.choice(envs), "q": rng.choice(qpool), "doc": rng.choice(docs)})
                iters.append(iid)
            elif rr < 0.8:
                ops.append({"op": "iter_next", "it": rng.choice(iters), "n": rng.choice((1, 1, 2, 3, 50))})
            elif rr < 0.9:
                ops.append({"op": "iter_close", "it": rng.choice(iters)})
            else:
                ops.append({"op": "iter_drop", "it": rng.choice(iters)})
        elif use_faults:
            cands = [(e, n) for e in envs if e != "module" for n, _ in (envspecs[e].get("setup") or []) + envspecs[e]["funcs"]]
            if cands:
                e, n = rng.choice(cands)
                ops.append({"op": "arm_fault", "env": e, "name": n, "k": rng.choice((1, 1, 2, 3, 5))})
    return {"knobs": knobs, "ops": ops, "faults": use_faults}


def execute(history: Dict[str, Any], sseed: int) -> machine.Machine:
    sim = simrandom.SimRandom(sseed)
    simrandom.install(sim)
    try:
        m = machine.Machine(history.get("knobs"))

        def body() -> None:
            for op in history["ops"]:
                m.step(op)
            m.final_recheck()

        # on a simulated thread: a call that blocks for ever inside the library ends the
        # history as a deadlock violation instead of hanging the harness
        err = sched.run_guarded(body)
        if isinstance(err, sched.Deadlock):
            m._tl.label = "history"
            m._violate("deadlock", f"a call into the library blocks for ever: {err}")
        elif err is not None:
            raise err
        m.close()
        return m
    finally:
        simrandom.uninstall()


def violations_of(m: machine.Machine, history: Dict[str, Any], sseed: int) -> List[Dict[str, Any]]:
    out = []
    for v in m.violations:
        out.append({"class": v["class"], "signature": f"C14:{v['class']}", "what": v["what"], "payload": {"history": history, "sim_seed": sseed}})
    return out


def run_one(seed: int, tier: str, index: int) -> Dict[str, Any]:
    rng = seeds.stream(seed, "workload")
    faults = index % 2 == 1  # fault-free and fault-bearing configurations are separate
    if index % 50 == 7:
        history = gen_long_history(rng, tier == "thorough")
    else:
        history = gen_history(rng, faults)
    sseed = seeds.stream(seed, "choices").getrandbits(48)
    m = execute(history, sseed)
    st = dict(m.stats)
    st["histories_fault_bearing" if history["faults"] else "histories_fault_free"] = 1
    st["ops"] = len(history["ops"])
    if history.get("long"):
        st["histories_long_volume"] = 1
        st["long_distinct_query_texts"] = len({o["q"] for o in history["ops"] if "q" in o})
    if history["knobs"].get("regex_maxcache"):
        st["knob_small_regex_cache"] = 1
    nontrivial = m.stats["envs_created"] >= 1 and m.stats["judged_ops"] >= 2
    sample = None
    if index % 1501 == 0:
        sample = {"knobs": history["knobs"], "ops": history["ops"][:12], "n_ops": len(history["ops"]), "judged": m.stats["judged_ops"]}
    return {
        "digest": seeds.digest(m.events),
        "sigs": sorted(set(m.sigs)) if nontrivial else [],
        "stats": st,
        "steps": m.op_index + 1,
        "violations": violations_of(m, history, sseed)[:3],
        "sample": sample,
    }


def replay(payload: Dict[str, Any]) -> List[Dict[str, Any]]:
    worker_init()
    m = execute(payload["history"], payload["sim_seed"])
    return violations_of(m, payload["history"], payload["sim_seed"])


def shrink_candidates(payload: Dict[str, Any]):
    h = payload["history"]
    ops = h["ops"]
    n = len(ops)
    # drop chunks, then single ops (from the end: later ops depend on earlier ones)
    size = n // 2
    while size >= 1:
        for start in range(n - size, -1, -size):
            cand = ops[:start] + ops[start + size :]
            if len(cand) < n:
                yield {**payload, "history": {**h, "ops": cand}}
        size //= 2
    if h["knobs"].get("regex_maxcache"):
        yield {**payload, "history": {**h, "knobs": {"regex_maxcache": None}}}
    # shrink documents
    for i, op in enumerate(ops):
        if op["op"] == "new_doc" and "json" in op["spec"]:
            for k, d2 in enumerate(D.shrink_json(op["spec"]["json"])):
                if k > 30:
                    break
                if isinstance(d2, (list, dict)):
                    yield {**payload, "history": {**h, "ops": ops[:i] + [{**op, "spec": {"json": d2}}] + ops[i + 1 :]}}

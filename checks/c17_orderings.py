"""C17 -- nondeterministic mode only ever produces orderings RFC 9535 allows,
and produces all of them.

The "schedule" is the stream of outcomes of the random choices the evaluator
makes.  The simulator owns the source (dst.simrandom), drives it with seeded,
bias-swarmed choice streams, and checks every outcome against the set of
orderings a small reference model (ref.orderings) derives from RFC 9535.

Run index space: [0, len(CORPUS_tier)) are *corpus* cases (fixed, enumerated,
independent of VERIF_SEED: exhaustiveness + validity); the rest are *random*
cases (validity only).
"""

from __future__ import annotations

from collections import Counter
import copy
from typing import Any
from typing import Dict
from typing import List
from typing import Optional
from typing import Tuple

import jsonpath_rfc9535 as jp

from dst import seeds
from dst import simrandom
from gen import docs as D
from gen import queries as Q
from ref.orderings import Permitted
from ref.orderings import TooBig
from ref.structure import Structure

PROPERTY = "C17"
LEVEL = "exploration"
STEP_UNIT = "random-seam decisions consumed by the evaluator (choice/shuffle/sample calls)"
RULE = (
    "run = one (query, document) case x K seeded choice streams (bias profile swarmed per stream) through the "
    "random seam; corpus runs (fixed enumerated tree shapes x fixed queries) additionally search until the reached "
    "ordering set equals the permitted set or the per-case stream budget is spent. distinct_nontrivial counts "
    "distinct (query, document, observed result ordering) triples among cases whose permitted set has >= 2 orderings "
    "or whose evaluation consumed >= 1 random decision."
)
ASSUMPTIONS = [
    "the library's deterministic result of a single selector on a single node fixes which children are selected "
    "(the statement anchors the node multiset to the deterministic result)",
    "exhaustiveness is a sampled (statistical) decision over a fixed corpus with <= 64 permitted orderings per case; "
    "a case whose reached set was still growing in the last tenth of its budget is reported undecided, not violated",
    "exact ordering membership is checked when the permitted set has <= 20000 members; larger cases get the multiset "
    "and identity checks only",
]
COMPONENTS = {
    "real": ["lexer", "parser", "segments", "selectors", "filter evaluator", "function extensions (built-ins)", "regex", "iregexp_check"],
    "stub": ["random.choice/sample/shuffle/... (SimRandom: seeded, biased, recorded)"],
}


class NDEnv(jp.JSONPathEnvironment):
    nondeterministic = True


_DENV: Optional[jp.JSONPathEnvironment] = None
_NENV: Optional[jp.JSONPathEnvironment] = None


class _Det(jp.JSONPathEnvironment):
    nondeterministic = False


class _Inherited(NDEnv):
    pass


def worker_init() -> None:
    global _DENV, _NENV
    _DENV = jp.JSONPathEnvironment()
    _NENV = NDEnv()


def _plain_on() -> jp.JSONPathEnvironment:
    env = jp.JSONPathEnvironment()
    env.nondeterministic = True
    return env


def _over_on() -> jp.JSONPathEnvironment:
    env = _Det()
    env.nondeterministic = True
    return env


# the ways a user switches the mode on: a subclass attribute, the subclass of such a subclass,
# an attribute set on a plain environment object, an object attribute overriding its class
_NENV_FACTORIES = (NDEnv, _Inherited, _plain_on, _over_on)


def _nenv(text: str) -> jp.JSONPathEnvironment:
    """A FRESH nondeterministic environment (built while the simulated generator is installed, so
    that whatever randomness an environment sets up for itself at construction is part of the run);
    which of the equivalent kinds is a function of the query text alone (a replay needs nothing more)."""
    import zlib

    return _NENV_FACTORIES[zlib.crc32(text.encode("utf-8", "surrogatepass")) % len(_NENV_FACTORIES)]()


# ---------------------------------------------------------------------------
# fixed corpus for exhaustiveness
# ---------------------------------------------------------------------------
def _ordered_trees(n: int) -> List[Tuple]:
    """All ordered rooted trees with n nodes, as nested tuples of children."""
    if n == 1:
        return [()]
    out = []
    # split n-1 nodes among an ordered forest
    def forests(m: int) -> List[Tuple]:
        if m == 0:
            return [()]
        res = []
        for first in range(1, m + 1):
            for t in _ordered_trees(first):
                for rest in forests(m - first):
                    res.append((t,) + rest)
        return res

    for f in forests(n - 1):
        out.append(f)
    return out


def _label(tree: Tuple, kinds: str, depth: int, counter: List[int]) -> Any:
    kind = kinds[depth % len(kinds)]
    kids = [_label(t, kinds, depth + 1, counter) for t in tree]
    if not kids:
        counter[0] += 1
        kids = [counter[0]]
    if kind == "l":
        return kids
    return {Q.KEYS[i] if i < len(Q.KEYS) else f"k{i}": v for i, v in enumerate(kids)}


CORPUS_QUERIES = [
    {"segs": [{"k": "desc", "sels": [{"t": "wild"}]}]},
    {"segs": [{"k": "desc", "sels": [{"t": "index", "v": 0}]}]},
    {"segs": [{"k": "desc", "sels": [{"t": "filter", "e": {"t": "rel", "q": {"segs": []}}}]}]},
    {"segs": [{"k": "child", "sels": [{"t": "wild"}]}, {"k": "child", "sels": [{"t": "wild"}]}]},
    {"segs": [{"k": "child", "sels": [{"t": "wild"}, {"t": "wild"}]}]},
    {"segs": [{"k": "desc", "sels": [{"t": "name", "v": "a"}, {"t": "index", "v": -1}]}]},
    {"segs": [{"k": "child", "sels": [{"t": "wild"}]}, {"k": "desc", "sels": [{"t": "wild"}]}]},
    # two order-randomising selectors in one segment: each application may use its own member order
    {"segs": [{"k": "desc", "sels": [{"t": "wild"}, {"t": "wild"}]}]},
    {"segs": [{"k": "desc", "sels": [{"t": "wild"}, {"t": "filter", "e": {"t": "rel", "q": {"segs": []}}}]}]},
    {"segs": [{"k": "child", "sels": [{"t": "filter", "e": {"t": "rel", "q": {"segs": []}}}, {"t": "wild"}]}]},
    # ... including two FILTERS (what "one pass over the members for all the filters" would tie together)
    {"segs": [{"k": "desc", "sels": [{"t": "filter", "e": {"t": "rel", "q": {"segs": []}}}, {"t": "filter", "e": {"t": "rel", "q": {"segs": []}}}]}]},
    {"segs": [{"k": "child", "sels": [{"t": "filter", "e": {"t": "rel", "q": {"segs": []}}}, {"t": "filter", "e": {"t": "rel", "q": {"segs": []}}}]}]},
    # a single selector on the root: n! orderings for an object with n members
    {"segs": [{"k": "child", "sels": [{"t": "wild"}]}]},
    {"segs": [{"k": "child", "sels": [{"t": "filter", "e": {"t": "rel", "q": {"segs": []}}}]}]},
]


# documents on which a walk has three or more runs of siblings pending at once
# (what "pick the oldest or the newest run" style shortcuts get wrong); always in
# the quick tier
THREE_RUN_DOCS = [
    [[[1]], [[2]], [[3]]],
    [[[1]], [[2]], [3]],
    [[[1], [2]], [3], [4]],
    [[[1]], [[2]], [3]],
    {"a": [[1]], "b": [[2]], "c": [3]},
    [[[1], [[2]]], [3]],
    [4, [{"a": 9, "b": 5}, [7]], [8]],
]


def _build_corpus() -> List[Tuple[Dict[str, Any], Any]]:
    docs: List[Any] = []
    seen = set()
    for n in range(2, 8):
        for tree in _ordered_trees(n):
            # 7 containers: arrays only (runs are shared by the elements of one
            # array, so the rarest ordering keeps a probability the budget can see)
            for kinds in ("l", "d", "ld", "dl") if n <= 6 else ("l",):
                doc = _label(tree, kinds, 0, [0])
                key = repr(doc)
                if key not in seen:
                    seen.add(key)
                    docs.append(doc)
    for extra in THREE_RUN_DOCS:
        if repr(extra) in seen:
            docs.remove(extra)
        seen.add(repr(extra))
        docs.append(extra)
    return [(q, d) for d in docs for q in CORPUS_QUERIES]


CORPUS = _build_corpus()
QUICK_CORPUS_STRIDE = 61  # quick tier: every 41st corpus case + all THREE_RUN_DOCS cases at the end
EXHAUST_CAP = {"quick": 64, "thorough": 256}


def corpus_for(tier: str) -> List[int]:
    if tier == "thorough":
        return list(range(len(CORPUS)))
    idx = list(range(0, len(CORPUS), QUICK_CORPUS_STRIDE))
    tail = list(range(len(CORPUS) - len(THREE_RUN_DOCS) * len(CORPUS_QUERIES), len(CORPUS)))
    return sorted(set(idx + tail))


def plan(tier: str) -> Dict[str, Any]:
    nc = len(corpus_for(tier))
    if tier == "thorough":
        return {"runs": nc + 400_000, "chunk": 250, "budget_s": 780, "chunk_hard_s": 900, "minimise_s": 60}
    return {"runs": nc + 12_000, "chunk": 60, "budget_s": 45, "chunk_hard_s": 300, "minimise_s": 30}


# ---------------------------------------------------------------------------
# one evaluation through the seam
# ---------------------------------------------------------------------------
def _decision_cap(doc: Any) -> int:
    """Random decisions one evaluation may consume before it is called non-terminating: a filter
    with a root or descendant query runs a whole walk per candidate, so quadratic in the size."""
    n = D.count_nodes(doc)
    return 20_000 + 60 * n * n


def _locs_det(text: str, doc: Any) -> List[Tuple]:
    assert _DENV is not None
    return [n.location for n in _DENV.find(text, doc)]


def _det_aliases(text: str, doc: Any) -> bool:
    """Do the deterministic result's container values alias the document's own objects?"""
    assert _DENV is not None
    try:
        for n in _DENV.find(text, doc):
            at = D.get(doc, n.location)
            if isinstance(at, (list, dict)) and at is not n.value:
                return False
    except Exception:  # noqa: BLE001
        return False
    return True


_COMPILED: Dict[str, Any] = {}


def run_stream(text: str, doc: Any, sseed: int, profile: Dict[str, Any], feed: Optional[list] = None, reuse_compiled: bool = False):
    """Evaluate in nondeterministic mode under one choice stream.

    Returns (locs | None, exc class name | None, identity_ok, trace, draws).
    """
    assert _NENV is not None
    sim = simrandom.SimRandom(sseed, profile, feed)
    sim.cap = _decision_cap(doc)
    simrandom.install(sim)
    try:
        try:
            if reuse_compiled:
                # one compiled query applied again and again (an order fixed at compile
                # time, or remembered on the compiled objects, shows only this way), with a
                # deterministic environment compiling and evaluating in between (a mode or
                # order kept process-wide instead of per environment shows only this way)
                if text not in _COMPILED:
                    if len(_COMPILED) > 50:
                        _COMPILED.clear()
                    _COMPILED[text] = _nenv(text).compile(text)
                assert _DENV is not None
                _DENV.find("$..[*]", {"a": [1, {"b": 2}], "c": 3})
                nodes = _COMPILED[text].find(doc)
            else:
                nodes = _nenv(text).find(text, doc)
        except simrandom.ChoiceBudgetExceeded:
            return None, f"no-termination: more than {sim.cap} random decisions consumed", True, sim.log[:200], sim.draws
        except Exception as exc:  # noqa: BLE001
            return None, type(exc).__name__, True, sim.log, sim.draws
    finally:
        simrandom.uninstall()
    locs = []
    ident = True
    for n in nodes:
        locs.append(tuple(n.location))
        try:
            at = D.get(doc, n.location)
            if isinstance(at, (list, dict)):
                ident = ident and at is n.value
            else:
                ident = ident and D.canon(at) == D.canon(n.value)
        except Exception:  # noqa: BLE001
            ident = False
    return locs, None, ident, sim.log, sim.draws


def run_tapped(text: str, doc: Any, sseed: int, profile: Dict[str, Any], feed: Optional[list] = None):
    """The same evaluation driven one segment at a time, recording what flows
    between the segments (for the structural check, which needs no enumeration).

    Returns (taps | None, exc | None, trace).  taps is None when the compiled
    query does not expose segments/resolve (then the structural check is skipped).
    """
    assert _NENV is not None
    sim = simrandom.SimRandom(sseed, profile, feed)
    sim.cap = _decision_cap(doc)
    simrandom.install(sim)
    try:
        try:
            compiled = _nenv(text).compile(text)
            segs = getattr(compiled, "segments", None)
            if segs is None or not all(hasattr(g, "resolve") for g in segs):
                return None, None, sim.log
            nodes = [jp.JSONPathNode(value=doc, location=(), root=doc)]
            taps = [[()]]
            for g in segs:
                nodes = list(g.resolve(nodes))
                taps.append([tuple(n.location) for n in nodes])
            return taps, None, sim.log
        except simrandom.ChoiceBudgetExceeded:
            return None, f"no-termination: more than {sim.cap} random decisions consumed", sim.log[:200]
        except Exception as exc:  # noqa: BLE001
            return None, type(exc).__name__, sim.log
    finally:
        simrandom.uninstall()


def _viol(cls: str, what: str, payload: Dict[str, Any], sig_extra: str = "") -> Dict[str, Any]:
    return {"class": cls, "signature": f"C17:{cls}{sig_extra}", "what": what, "payload": payload}


def _short(doc: Any) -> str:
    r = repr(doc)
    return r if len(r) <= 300 else r[:300] + "..."


def _jsonable_seq(seq) -> List[List[Any]]:
    return [list(loc) for loc in seq]


def check_case(
    qast: Dict[str, Any],
    doc: Any,
    streams: List[Tuple[int, Dict[str, Any], Optional[list]]],
    *,
    exhaust_budget: int = 0,
    exhaust_seed: int = 0,
    corpus_index: Optional[int] = None,
    exhaust_cap: int = 64,
    force_tapped: Optional[bool] = None,
    reuse_compiled: bool = False,
) -> Dict[str, Any]:
    """Validity on the given streams; if exhaust_budget > 0 also reached-set search."""
    text = Q.render(qast)
    out: Dict[str, Any] = {"violations": [], "stats": Counter(), "events": [], "sigs": set(), "steps": 0}
    st = out["stats"]
    try:
        det = _locs_det(text, doc)
    except Exception as exc:  # noqa: BLE001
        st["case_det_raises"] += 1
        out["events"].append(["det-raises", text, type(exc).__name__])
        return out
    det_ms = Counter(det)
    try:
        P = Permitted(qast, doc, lambda t: _locs_det(t, doc))
        permitted = P.all()
        st["case_exact"] += 1
    except TooBig:
        permitted = None
        st["case_too_big_for_exact"] += 1
    if permitted is not None and tuple(det) not in permitted:
        # the deterministic result itself is one of the permitted orderings by
        # construction of the RFC; if not, the *model* is wrong -> harness error
        raise AssertionError(f"reference model does not contain the deterministic result: {text} {doc!r}")
    nontrivial = permitted is None or len(permitted) >= 2
    reached: Dict[Tuple, int] = {}
    last_new = 0
    n_streams = 0

    structure = Structure(qast, doc, lambda t: _locs_det(t, doc))

    reuse = bool(reuse_compiled)

    def one(sseed: int, profile: Dict[str, Any], feed: Optional[list], tapped: bool = False) -> None:
        nonlocal last_new, n_streams
        n_streams += 1
        if tapped:
            taps, exc, trace = run_tapped(text, doc, sseed, profile, feed)
            st["streams_tapped"] += 1
            if taps is None and exc is None:
                st["structural_check_unavailable"] += 1
                return
            if exc is not None and not exc.startswith("no-termination"):
                # driving the segments one by one uses more of the library's object model
                # than find() does; if find() itself is fine under the same stream, the
                # tap is what no longer fits the tree -- not a verdict
                _l, exc2, _i, _t, _d = run_stream(text, doc, sseed, profile, None)
                if exc2 is None:
                    st["structural_check_unavailable"] += 1
                    return
            locs, ident, draws = (taps[-1] if taps is not None else None), True, 0
            if taps is not None:
                err = structure.check(taps)
                if err is not None:
                    out["violations"].append(
                        _viol("invalid:structure", f"{text} over {_short(doc)}: {err}", {"kind": "validity", "tapped": True, "query": qast, "doc": doc, "stream": {"seed": sseed, "profile": profile, "trace": trace}})
                    )
                    out["events"].append(["structure", err[:80]])
                    return
        else:
            locs, exc, ident, trace, draws = run_stream(text, doc, sseed, profile, feed, reuse_compiled=reuse)
        st["streams"] += 1
        out["steps"] += len(trace)
        for t in trace:
            st["decisions_" + t[0]] += 1
        payload = {
            "kind": "validity",
            "tapped": tapped,
            "reuse_compiled": reuse,
            "query": qast,
            "doc": doc,
            "stream": {"seed": sseed, "profile": profile, "trace": trace},
        }
        if exc is not None:
            out["violations"].append(
                _viol("invalid:exception", f"{text} over {doc!r}: nondeterministic mode raised {exc}, deterministic mode did not", payload)
            )
            out["events"].append(["exc", exc])
            return
        seq = tuple(locs)
        out["events"].append(_jsonable_seq(seq))
        if trace or nontrivial:
            out["sigs"].add(seeds.digest([text, doc, _jsonable_seq(seq)]))
        if Counter(seq) != det_ms:
            out["violations"].append(
                _viol("invalid:multiset", f"{text} over {doc!r}: nodes {_jsonable_seq(seq)} are not the deterministic multiset {_jsonable_seq(det)}", payload)
            )
            return
        if not ident and _det_aliases(text, doc):
            out["violations"].append(_viol("invalid:identity", f"{text} over {_short(doc)}: a node's value is not the document value at its location (it is in deterministic mode)", payload))
            return
        if permitted is not None:
            if seq not in permitted:
                out["violations"].append(
                    _viol("invalid:ordering", f"{text} over {doc!r}: ordering {_jsonable_seq(seq)} is not permitted by RFC 9535 ({len(permitted)} permitted)", payload)
                )
                return
            if seq not in reached:
                reached[seq] = 0
                last_new = n_streams
            reached[seq] += 1

    for k, (sseed, profile, feed) in enumerate(streams):
        one(sseed, profile, feed, tapped=(k % 2 == 1) if force_tapped is None else force_tapped)

    if exhaust_budget and permitted is not None and 2 <= len(permitted) <= exhaust_cap and not out["violations"]:
        st["exhaust_cases"] += 1
        rng = seeds.stream(exhaust_seed, "choices")
        k = 0
        while len(reached) < len(permitted) and k < exhaust_budget:
            profile = simrandom.UNIFORM_PROFILE if (k % 2 == 0) else simrandom.draw_profile(rng)
            one(rng.getrandbits(48), profile, None)
            k += 1
        st["exhaust_streams"] += k
        if len(reached) == len(permitted):
            st["exhaust_complete"] += 1
            bucket = "le_64" if n_streams <= 64 else "le_512" if n_streams <= 512 else "le_4096" if n_streams <= 4096 else "gt_4096"
            st[f"exhaust_streams_to_complete_{bucket}"] += 1
        elif last_new > 0.9 * n_streams:
            st["exhaust_undecided"] += 1
        else:
            missing = sorted(permitted - set(reached))
            rare = min(reached.values()) / n_streams if reached else 0.0
            m0 = missing[0]
            out["violations"].append(
                {
                    "class": "exhaustive:missing",
                    "signature": f"C17:exhaustive:missing:{text}:{seeds.digest(doc)}",
                    "what": (
                        f"{text} over {doc!r}: {len(missing)} of {len(permitted)} permitted orderings never produced in "
                        f"{n_streams} choice streams (last new ordering at stream {last_new}; rarest reached frequency "
                        f"{rare:.4f}); e.g. missing {_jsonable_seq(m0)}"
                    ),
                    "payload": {
                        "kind": "exhaustive",
                        "query": qast,
                        "doc": doc,
                        "corpus_index": corpus_index,
                        "budget": exhaust_budget,
                        "exhaust_cap": exhaust_cap,
                        "reuse_compiled": reuse,
                        "exhaust_seed": exhaust_seed,
                        "missing_example": _jsonable_seq(m0),
                        "n_missing": len(missing),
                        "n_permitted": len(permitted),
                    },
                }
            )
            st["exhaust_missing_cases"] += 1
    if permitted is not None:
        st["permitted_orderings_total"] += len(permitted)
        st["reached_orderings_total"] += len(reached)
    return out


# ---------------------------------------------------------------------------
# guided reachability ("steering"): exhaustiveness where the permitted set cannot be enumerated
# ---------------------------------------------------------------------------
def _wide_array_doc(rng) -> Any:
    """Arrays only (so the walk's only freedom is which pending run comes next): a root with W
    elements, each holding containers of its own -- far more runs pending at once than any
    enumerable case has."""
    w = rng.choice((4, 12, 33, 66, 70, 130))
    kind = rng.random()
    n = [0]

    def leaf():
        n[0] += 1
        return [n[0]]

    if kind < 0.5:
        return [[leaf()] for _ in range(w)]
    if kind < 0.8:
        return [[leaf(), leaf()] if i % 3 == 0 else [leaf()] for i in range(w)]
    return [[[leaf()]] if i % 2 else [leaf()] for i in range(max(2, w // 2))]


def _target_visit_order(rng, doc: Any) -> List[Tuple]:
    """A linear extension of {parent before child, array elements in index order}, built with the
    reference's own frontier of runs: mostly the oldest run, with a few deviations to a random
    pending run (newest run, a run in the middle, a child straight after its parent)."""
    def runs_of(loc: Tuple) -> List[List[Tuple]]:
        v = D.get(doc, loc)
        kids = [loc + (i,) for i, c in enumerate(v) if isinstance(c, (list, dict))]
        return [kids] if kids else []

    order = [()]
    frontier = runs_of(())
    n_cont = sum(1 for _ in _iter_containers(doc))
    deviate_at = set(rng.sample(range(1, max(3, n_cont)), min(n_cont - 2, rng.choice((1, 2, 3, 5)))))
    deviate_at.add(rng.randrange(n_cont // 2, n_cont))  # one where most runs are pending
    step = 0
    while frontier:
        step += 1
        if step in deviate_at or rng.random() < (0.07 if len(frontier) > 40 else 0.03):
            i = rng.choice((len(frontier) - 1, rng.randrange(len(frontier)), len(frontier) - 1))
        else:
            i = 0
        run = frontier[i]
        node = run.pop(0)
        if not run:
            del frontier[i]
        order.append(node)
        frontier.extend(runs_of(node))
    return order


def _iter_containers(v: Any):
    if isinstance(v, (list, dict)):
        yield v
        for c in (v.values() if isinstance(v, dict) else v):
            yield from _iter_containers(c)


def _result_for_visit_order(doc: Any, order: List[Tuple]) -> List[Tuple]:
    out = []
    for loc in order:
        v = D.get(doc, loc)
        out.extend(loc + (i,) for i in range(len(v)))
    return out


def _steer_eval(text: str, doc: Any, plan: List[int]):
    assert _NENV is not None
    sim = simrandom.SteerRandom(1, plan)
    sim.cap = 200_000
    simrandom.install(sim)
    res: List[Tuple] = []
    exc = None
    try:
        try:
            for node in _nenv(text).finditer(text, doc):
                res.append(tuple(node.location))
                sim.produced = len(res)
        except simrandom.ChoiceBudgetExceeded:
            exc = "no-termination"
        except Exception as e:  # noqa: BLE001
            exc = type(e).__name__
    finally:
        simrandom.uninstall()
    return res, sim, exc


def steer(text: str, doc: Any, target: List[Tuple], budget: int) -> Dict[str, Any]:
    """Depth-first search over the index decisions for an outcome that produces *target*.
    Complete within its budget: a decision is only ever changed when every later decision comes
    after the first wrong node, so no reachable target is pruned away."""
    plan: List[int] = []
    evals = 0
    # The search is sound only if the result is a function of the index decisions it sees.  An
    # evaluator that draws from somewhere else (a generator of its own made before this
    # evaluation, say) shows as: the same decisions, another result -- or no decisions at all
    # although the result is not the only permitted one.  Then nothing can be concluded.
    first, sim1, exc1 = _steer_eval(text, doc, [])
    again, sim2, exc2 = _steer_eval(text, doc, [])
    if sim1.unsupported or sim2.unsupported:
        return {"status": "unsupported", "evals": 2}
    if exc1 is None and exc2 is None:
        if first != again or [d[:2] for d in sim1.decisions] != [d[:2] for d in sim2.decisions] or (not sim1.decisions and first != target):
            return {"status": "unsupported", "evals": 2}
    while evals < budget:
        evals += 1
        res, sim, exc = _steer_eval(text, doc, plan)
        if sim.unsupported:
            return {"status": "unsupported", "evals": evals}
        if exc is not None:
            return {"status": "error", "exc": exc, "evals": evals}
        if res == target:
            return {"status": "reached", "evals": evals, "decisions": len(sim.decisions)}
        p = next((i for i, (a, b) in enumerate(zip(res, target)) if a != b), min(len(res), len(target)))
        dec = sim.decisions
        if not dec:
            # another result than the target without a single decision seen: the choices are made
            # somewhere this search cannot see
            return {"status": "unsupported", "evals": evals}
        k = max((i for i, d in enumerate(dec) if d[2] <= p), default=-1)
        if k < 0:
            return {"status": "unreachable", "evals": evals, "at": p}
        plan = [d[1] for d in dec[: k + 1]]
        plan[k] += 1
        while plan and plan[-1] >= dec[len(plan) - 1][0]:
            plan.pop()
            if plan:
                plan[-1] += 1
        if not plan:
            return {"status": "unreachable", "evals": evals, "at": p}
    return {"status": "undecided", "evals": evals}


def steer_case(seed: int, tier: str) -> Dict[str, Any]:
    rng = seeds.stream(seed, "workload")
    doc = _wide_array_doc(rng)
    text = "$..[*]"
    order = _target_visit_order(rng, doc)
    target = _result_for_visit_order(doc, order)
    out = steer(text, doc, target, 8000 if tier == "thorough" else 4000)
    st: Counter = Counter()
    st["steer_cases"] += 1
    st[f"steer_{out['status']}"] += 1
    st["steer_evaluations"] += out["evals"]
    viols = []
    if out["status"] == "unreachable":
        viols.append(
            {
                "class": "exhaustive:unreachable-visit-order",
                "signature": f"C17:exhaustive:unreachable-visit-order:width={len(doc)}",
                "what": f"{text} over an array document with {len(doc)} top-level elements ({len(order)} containers): a visit order RFC 9535 permits (parents first, array order kept; first wrong node at result position {out['at']}) is produced by NO outcome of the index choices (complete search, {out['evals']} evaluations)",
                "payload": {"kind": "steer", "doc": doc, "query_text": text, "target": [list(t) for t in target], "budget": 6000},
            }
        )
    elif out["status"] == "error":
        viols.append(_viol("invalid:exception", f"{text} over a wide array document: nondeterministic evaluation raised {out['exc']} while being steered", {"kind": "steer", "doc": doc, "query_text": text, "target": [list(t) for t in target], "budget": 6000}))
    return {"violations": viols, "stats": st, "events": [["steer", len(doc), out["status"]]], "sigs": {seeds.digest([doc, [list(t) for t in target][:50]])}, "steps": out["evals"]}


# ---------------------------------------------------------------------------
# overlapping evaluations: results obtained lazily, several at a time
# ---------------------------------------------------------------------------
def run_overlap(text: str, docs: List[Any], schedule: List[int], sseed: int, profile: Dict[str, Any], feed: Optional[list] = None):
    """One compiled query on a nondeterministic environment, one lazy iterator per document, the
    iterators advanced in the order ``schedule`` says (then drained in turn), all under one
    choice stream.  Returns ([locs | None per document], exc | None, trace)."""
    sim = simrandom.SimRandom(sseed, profile, feed)
    sim.cap = sum(_decision_cap(d) for d in docs)
    simrandom.install(sim)
    got: List[List[Tuple]] = [[] for _ in docs]
    try:
        try:
            compiled = _nenv(text).compile(text)
            its = [iter(compiled.finditer(d)) for d in docs]
            done = [False] * len(docs)
            for who in list(schedule) + [i for i in range(len(docs)) for _ in range(100_000)]:
                if all(done):
                    break
                if done[who]:
                    continue
                try:
                    got[who].append(tuple(next(its[who]).location))
                except StopIteration:
                    done[who] = True
        except simrandom.ChoiceBudgetExceeded:
            return None, f"no-termination: more than {sim.cap} random decisions consumed", sim.log[:200]
        except Exception as exc:  # noqa: BLE001
            return None, type(exc).__name__, sim.log
    finally:
        simrandom.uninstall()
    return got, None, sim.log


def overlap_case(qast: Dict[str, Any], docs: List[Any], schedule: List[int], streams: List[Tuple[int, Dict[str, Any], Optional[list]]]) -> Dict[str, Any]:
    """Every result of every one of the overlapping evaluations must be a permitted one for ITS
    document (multiset always; ordering where the permitted set can be enumerated)."""
    text = Q.render(qast)
    out: Dict[str, Any] = {"violations": [], "stats": Counter(), "events": [], "sigs": set(), "steps": 0}
    st = out["stats"]
    dets = []
    for d in docs:
        try:
            dets.append(_locs_det(text, d))
        except Exception as exc:  # noqa: BLE001
            st["case_det_raises"] += 1
            out["events"].append(["det-raises", text, type(exc).__name__])
            return out
    permitted: List[Any] = []
    for d in docs:
        try:
            permitted.append(Permitted(qast, d, lambda t, d=d: _locs_det(t, d)).all())
        except TooBig:
            permitted.append(None)
    st["overlap_cases"] += 1
    for sseed, profile, feed in streams:
        got, exc, trace = run_overlap(text, docs, schedule, sseed, profile, feed)
        st["overlap_streams"] += 1
        out["steps"] += len(trace)
        payload = {"kind": "overlap", "query": qast, "docs": docs, "schedule": schedule, "stream": {"seed": sseed, "profile": profile, "trace": trace}}
        if exc is not None:
            out["violations"].append(_viol("invalid:exception", f"{text}: overlapping nondeterministic evaluations raised {exc}, deterministic mode does not", payload, ":overlap"))
            out["events"].append(["exc", exc])
            break
        for i, (seq, det) in enumerate(zip(got, dets)):
            out["events"].append(_jsonable_seq(seq))
            if Counter(seq) != Counter(det):
                out["violations"].append(_viol("invalid:multiset", f"{text}: of {len(docs)} overlapping evaluations of one compiled query, the one over {_short(docs[i])} gave {_jsonable_seq(seq)}, not the deterministic multiset {_jsonable_seq(det)}", payload, ":overlap"))
                break
            if permitted[i] is not None and tuple(seq) not in permitted[i]:
                out["violations"].append(_viol("invalid:ordering", f"{text}: of {len(docs)} overlapping evaluations, the one over {_short(docs[i])} gave the ordering {_jsonable_seq(seq)}, which RFC 9535 does not permit", payload, ":overlap"))
                break
        if out["violations"]:
            break
        out["sigs"].add(seeds.digest([text, docs, schedule[:20], [_jsonable_seq(g) for g in got]]))
    return out


# ---------------------------------------------------------------------------
# marginal reachability: objects too wide for their n! orderings to be enumerated
# ---------------------------------------------------------------------------
def marginal_run(text: str, doc: Any, members: List[str], prefix: Tuple, n_streams: int, seed: int) -> Dict[str, Any]:
    """``text`` selects the members of one wide object (all of them, each once, in any order
    RFC 9535 permits -- so all n! orders are permitted).  Under a FAIR generator every member
    lands on every position with probability 1/n per evaluation; after ``n_streams`` unbiased
    choice streams a (member, position) pair never seen is reported as unreachable.  With
    n_streams = 50 n the chance of that for a fair n-way shuffle is below n^2 e^-50."""
    n = len(members)
    seen = [[False] * n for _ in range(n)]
    rng = seeds.stream(seed, "choices")
    bad = None
    for _ in range(n_streams):
        locs, exc, _ident, _trace, _draws = run_stream(text, doc, rng.getrandbits(48), simrandom.UNIFORM_PROFILE, None)
        if exc is not None:
            bad = f"raised {exc}"
            break
        order = [loc[len(prefix)] for loc in locs if tuple(loc[: len(prefix)]) == prefix and len(loc) == len(prefix) + 1]
        if sorted(order) != sorted(members):
            bad = f"selected members {order!r}, not a permutation of {members!r}"
            break
        for pos, name in enumerate(order):
            seen[members.index(name)][pos] = True
    holes = [(members[i], p) for i in range(n) for p in range(n) if not seen[i][p]]
    return {"bad": bad, "holes": holes}


def marginal_case(seed: int, tier: str) -> Dict[str, Any]:
    wl = seeds.stream(seed, "workload")
    n = wl.choice((9, 10, 12, 16, 17, 24))
    members = [f"k{i}" for i in range(n)]
    obj = {k: (i if wl.random() < 0.7 else [i]) for i, k in enumerate(members)}
    shape = wl.random()
    if shape < 0.5:
        doc, prefix, text = obj, (), wl.choice(("$[*]", "$.*", "$[?@ != 'zz']", "$[?@ == @]"))
    elif shape < 0.8:
        doc, prefix, text = {"o": obj, "p": 1}, ("o",), wl.choice(("$.o[*]", "$.o.*", "$['o'][?@ != 'zz']"))
    else:
        doc, prefix, text = [0, obj], (1,), wl.choice(("$[1][*]", "$[1].*"))
    k = 50 * n
    out = marginal_run(text, doc, members, prefix, k, seed)
    st: Counter = Counter()
    st["marginal_cases"] += 1
    st["marginal_streams"] += k
    viols = []
    payload = {"kind": "marginal", "doc": doc, "query_text": text, "members": members, "prefix": list(prefix), "streams": k, "seed": seed}
    if out["bad"]:
        viols.append(_viol("invalid:multiset", f"{text} over an object with {n} members: {out['bad']}", payload, ":wide-object"))
    elif out["holes"]:
        m0, p0 = out["holes"][0]
        viols.append(
            {
                "class": "exhaustive:never-at-position",
                "signature": f"C17:exhaustive:never-at-position:members={n}",
                "what": f"{text} over an object with {n} members (all {n}! orders are permitted): in {k} unbiased choice streams {len(out['holes'])} (member, position) pairs never occurred, e.g. member {m0!r} never at result position {p0} (a fair shuffle misses a pair with probability < 1e-20)",
                "payload": payload,
            }
        )
    return {"violations": viols, "stats": st, "events": [["marginal", n, text, len(out["holes"]), out["bad"]]], "sigs": {seeds.digest([n, text])}, "steps": k}


# ---------------------------------------------------------------------------
# run generation
# ---------------------------------------------------------------------------
def _gen_random_case(rng) -> Tuple[Dict[str, Any], Any]:
    shape = rng.random()
    if shape < 0.6:
        doc = D.random_tree(rng, max_nodes=rng.choice((4, 6, 8, 10, 14)), max_depth=rng.choice((2, 3, 4)), p_dict=rng.choice((0.2, 0.5, 0.8)), max_width=rng.choice((2, 3, 4)))
    elif shape < 0.7:
        _q, doc = CORPUS[rng.randrange(len(CORPUS))]
    elif shape < 0.8:
        # wide: an array of 10..40 containers, or an object with 5..9 members (the
        # permitted set stays enumerable when the children are leaves)
        n = rng.choice((10, 16, 17, 18, 32, 33, 40))
        kind = rng.random()
        if kind < 0.5:
            doc = [[i] if rng.random() < 0.7 else {"a": i} for i in range(1, n + 1)]
        elif kind < 0.75:
            doc = {"a": [[i] for i in range(1, n + 1)], "b": 1}
        else:
            m = rng.choice((5, 6, 7, 9))
            doc = {f"k{i}": (i if rng.random() < 0.6 else [i]) for i in range(1, m + 1)}
    elif shape < 0.85:
        doc = D.random_tree(rng, max_nodes=rng.choice((16, 24, 40)), max_depth=5, p_dict=0.5, max_width=3)
    elif shape < 0.865:
        # sibling containers that are Python-equal but not the same JSON value ([1] / [true] / [1.0],
        # {"n": 0} / {"n": false}), next to ordinary ones: a filter tells them apart, whatever order
        # they are tested in
        base = rng.choice(([1], {"n": 0}, [0, "x"], {"a": 1, "b": [1]}, [[1]], {"n": 1.0}))

        def alike(v: Any) -> Any:
            if isinstance(v, list):
                return [alike(x) for x in v]
            if isinstance(v, dict):
                return {k_: alike(x) for k_, x in v.items()}
            if v == 1 and not isinstance(v, str):
                return rng.choice((True, 1, 1.0))
            if v == 0 and not isinstance(v, str):
                return rng.choice((False, 0, 0.0))
            return v

        sibs = [copy.deepcopy(base), alike(base), alike(base), rng.choice(([2], {"n": 2}, "s"))][: rng.choice((3, 4))]
        rng.shuffle(sibs)
        doc = {k_: v for k_, v in zip(("a", "b", "c", "d"), sibs)} if rng.random() < 0.65 else sibs
    elif shape < 0.88:
        # MANY runs waiting at once (33..80 container children of the root), each child an array of
        # arrays of arrays: whatever an evaluator does differently "when the frontier is large"
        # meets arrays whose elements must still come in index order
        n = rng.choice((33, 40, 64, 65, 80))

        def nest(i: int, d: int) -> Any:
            if d == 0:
                return [i, rng.choice(("x", "y", "z"))]
            return [nest(i, d - 1) for _ in range(rng.choice((2, 2, 3)))] + ([i] if rng.random() < 0.5 else [])

        kids = [nest(i, rng.choice((1, 2, 2))) for i in range(n)]
        doc = {f"m{i:02d}": k for i, k in enumerate(kids)} if rng.random() < 0.6 else kids
    elif shape < 0.9:
        # LONG arrays (65..300 elements) that are mostly scalars, with a few containers at the ends,
        # in the middle or after a long stretch of scalars (what "process an array in blocks" meets)
        n = rng.choice((65, 70, 128, 129, 150, 200, 300))
        arr: List[Any] = [rng.randint(0, 9) for _ in range(n)]
        for pos in set([0, n - 1] if rng.random() < 0.6 else [n - 1]) | {rng.randrange(n) for _ in range(rng.choice((0, 1, 3)))}:
            arr[pos] = rng.choice(({"a": pos, "b": [pos]}, [pos, {"a": pos}], {"a": {"b": pos}}, [[pos]]))
        kind = rng.random()
        doc = arr if kind < 0.5 else {"a": arr, "b": {"a": 1}} if kind < 0.8 else [arr, {"a": arr[:70]}]
    else:
        # big: beyond any enumeration -- judged by the multiset and the structural check
        doc = D.random_tree(rng, max_nodes=rng.choice((80, 150, 300)), max_depth=rng.choice((4, 6, 8)), p_dict=rng.choice((0.3, 0.6)), max_width=rng.choice((5, 7, 9)), keys=("a", "b", "c", "d", "e", "f", "g", "h", "i"))
    f = Q.Features(
        desc=rng.random() < 0.8,
        filters=rng.random() < 0.6,
        nested=rng.choice((1, 1, 2)),
        slices=rng.random() < 0.5,
        multi=rng.random() < 0.5,
        roots=rng.random() < 0.5,
        max_segs=rng.choice((1, 2, 2, 3)),
    )
    r = rng.random()
    if 0.85 <= shape < 0.865:
        q = rng.choice(_LOOKALIKE_QUERIES)
    elif r < 0.25:
        q = CORPUS_QUERIES[rng.randrange(len(CORPUS_QUERIES))]
    else:
        q = Q.gen_query(rng, f, 0, 1)
    if rng.random() < 0.12 and isinstance(doc, (list, dict)) and D.count_nodes(doc) < 60:
        doc = _odd_names(rng, doc)
    return q, doc


def _rel(*sels: Dict[str, Any]) -> Dict[str, Any]:
    return {"t": "rel", "q": {"segs": [{"k": "child", "sels": [sel], "sh": sel["t"] == "name"} for sel in sels]}}


def _flt(e: Dict[str, Any], desc: bool = False) -> Dict[str, Any]:
    return {"segs": [{"k": "desc" if desc else "child", "sels": [{"t": "filter", "e": e}], "sh": False}]}


def _cmp(left: Dict[str, Any], v: Any) -> Dict[str, Any]:
    return {"t": "cmp", "op": "==", "l": left, "r": {"t": "lit", "v": v}}


_I0 = {"t": "index", "v": 0}
_LOOKALIKE_QUERIES = [
    _flt(_cmp(_rel(_I0), 1)), _flt(_cmp(_rel({"t": "name", "v": "n"}), False)), _flt(_cmp(_rel({"t": "name", "v": "n"}), 0)), _flt(_cmp(_rel(_I0), True)),
    _flt(_cmp(_rel(_I0, _I0), 1)), _flt(_cmp(_rel({"t": "name", "v": "n"}), 1.0)), _flt(_cmp(_rel({"t": "name", "v": "a"}), 1), desc=True), _flt(_cmp(_rel({"t": "name", "v": "b"}, _I0), True)),
]


def _odd_names(rng, v: Any) -> Any:
    """The same document with some member names replaced by names that are falsy, blank or look like
    something else ('' , '0', ' ', 'length') -- member names are data."""
    if isinstance(v, list):
        return [_odd_names(rng, x) for x in v]
    if isinstance(v, dict):
        out: Dict[str, Any] = {}
        for k_, x in v.items():
            nk = rng.choice(("", "", "0", " ", "length", "-1")) if rng.random() < 0.45 else k_
            if nk in out:
                nk = k_
            out[nk] = _odd_names(rng, x)
        return out
    return v


STEER_CASES = {"quick": 60, "thorough": 1200}
MARGINAL_CASES = {"quick": 40, "thorough": 600}


def run_one(seed: int, tier: str, index: int) -> Dict[str, Any]:
    cidx = corpus_for(tier)
    if len(cidx) <= index < len(cidx) + STEER_CASES[tier]:
        res = steer_case(seed, tier)
        return {"digest": seeds.digest(res["events"]), "sigs": sorted(res["sigs"]), "stats": dict(res["stats"]), "steps": res["steps"], "violations": res["violations"], "sample": {"steer": res["events"][0]} if index % 10 == 0 else None}
    lo = len(cidx) + STEER_CASES[tier]
    if lo <= index < lo + MARGINAL_CASES[tier]:
        res = marginal_case(seed, tier)
        return {"digest": seeds.digest(res["events"]), "sigs": sorted(res["sigs"]), "stats": dict(res["stats"]), "steps": res["steps"], "violations": res["violations"], "sample": {"marginal": res["events"][0]} if index % 10 == 0 else None}
    if index < len(cidx):
        ci = cidx[index]
        q, doc = CORPUS[ci]
        rng = seeds.stream(seed, "choices")
        streams = [(rng.getrandbits(48), simrandom.draw_profile(rng), None) for _ in range(8)]
        budget = 200_000 if tier == "thorough" else 20_000
        res = check_case(q, doc, streams, exhaust_budget=budget, exhaust_seed=seed, corpus_index=ci, exhaust_cap=EXHAUST_CAP[tier], reuse_compiled=(index % 2 == 1))
        res["stats"]["runs_corpus"] += 1
    else:
        wl = seeds.stream(seed, "workload")
        q, doc = _gen_random_case(wl)
        rng = seeds.stream(seed, "choices")
        k = wl.choice((4, 8, 8, 16, 32))
        streams = [(rng.getrandbits(48), simrandom.draw_profile(rng), None) for _ in range(k)]
        if index % 9 == 4:
            # the same compiled query evaluated over two or three values at once
            small = D.random_tree(wl, max_nodes=wl.choice((4, 6, 8)), max_depth=3, p_dict=wl.choice((0.5, 0.8)), max_width=3)
            if not isinstance(doc, (list, dict)) or D.count_nodes(doc) > 40:
                doc = small
            docs = [doc]
            for _ in range(wl.choice((1, 1, 2))):
                r2 = wl.random()
                docs.append(doc if r2 < 0.3 else D.random_tree(wl, max_nodes=wl.choice((4, 8, 12)), max_depth=3, p_dict=wl.choice((0.5, 0.8)), max_width=3) if r2 < 0.7 else {"a": 1, "b": [2, {"a": 3, "c": 4}], "c": {"a": 5, "b": 6}})
            schedule = [wl.randrange(len(docs)) for _ in range(wl.choice((4, 10, 30)))] if wl.random() < 0.6 else [i % len(docs) for i in range(40)]
            res = overlap_case(q, docs, schedule, streams[:6])
            res["stats"]["runs_overlap"] += 1
        elif wl.random() < 0.02:
            # exhaustiveness beyond the fixed corpus: a random small case, searched like a corpus case
            res = check_case(q, doc, streams, exhaust_budget=20_000, exhaust_seed=seed, exhaust_cap=32)
            res["stats"]["runs_random_exhaust"] += 1
        else:
            res = check_case(q, doc, streams, reuse_compiled=(index % 3 == 0))
        res["stats"]["runs_random"] += 1
    sample = None
    if index % 997 == 0 or (index < len(cidx) and index % 7 == 0):
        sample = {"query": Q.render(q), "doc": doc, "first_orderings": res["events"][:3]}
    return {
        "digest": seeds.digest(res["events"]),
        "sigs": sorted(res["sigs"]),
        "stats": dict(res["stats"]),
        "steps": res["steps"],
        "violations": res["violations"],
        "sample": sample,
    }


# ---------------------------------------------------------------------------
# replay and shrinking
# ---------------------------------------------------------------------------
def replay(payload: Dict[str, Any]) -> List[Dict[str, Any]]:
    if _DENV is None:
        worker_init()
    if payload.get("kind") == "steer":
        doc, text = payload["doc"], payload["query_text"]
        target = [tuple(t) for t in payload["target"]]
        out = steer(text, doc, target, payload.get("budget", 6000))
        if out["status"] == "unreachable":
            return [{"class": "exhaustive:unreachable-visit-order", "signature": f"C17:exhaustive:unreachable-visit-order:width={len(doc)}", "what": f"replayed: target visit order unreachable ({out['evals']} evaluations)", "payload": payload}]
        if out["status"] == "error":
            return [_viol("invalid:exception", f"replayed: steering raised {out['exc']}", payload)]
        return []
    if payload.get("kind") == "marginal":
        out = marginal_run(payload["query_text"], payload["doc"], payload["members"], tuple(payload["prefix"]), payload["streams"], payload["seed"])
        n = len(payload["members"])
        if out["bad"]:
            return [_viol("invalid:multiset", f"replayed: {out['bad']}", payload, ":wide-object")]
        if out["holes"]:
            return [{"class": "exhaustive:never-at-position", "signature": f"C17:exhaustive:never-at-position:members={n}", "what": f"replayed: {len(out['holes'])} (member, position) pairs never occurred in {payload['streams']} unbiased streams", "payload": payload}]
        return []
    if payload.get("kind") == "overlap":
        s = payload["stream"]
        return overlap_case(payload["query"], payload["docs"], payload["schedule"], [(s["seed"], s["profile"], s.get("trace"))])["violations"]
    q, doc = payload["query"], payload["doc"]
    if payload["kind"] == "validity":
        s = payload["stream"]
        res = check_case(q, doc, [(s["seed"], s["profile"], s.get("trace"))], force_tapped=bool(payload.get("tapped")), reuse_compiled=bool(payload.get("reuse_compiled")))
        return res["violations"]
    res = check_case(q, doc, [], exhaust_budget=payload["budget"], exhaust_seed=payload["exhaust_seed"], corpus_index=payload.get("corpus_index"), exhaust_cap=payload.get("exhaust_cap", 64), reuse_compiled=bool(payload.get("reuse_compiled")))
    return res["violations"]


def shrink_candidates(payload: Dict[str, Any]):
    if payload.get("kind") == "overlap":
        docs, sch, s = payload["docs"], payload["schedule"], payload["stream"]
        fresh = {**s, "trace": None}
        if len(docs) > 2:
            for i in range(len(docs)):
                yield {**payload, "docs": docs[:i] + docs[i + 1 :], "schedule": [x for x in (y if y < i else y - 1 for y in sch if y != i)], "stream": fresh}
        for cut in (len(sch) // 2, len(sch) - 1):
            if 0 < cut < len(sch):
                yield {**payload, "schedule": sch[:cut], "stream": fresh}
        for i, d in enumerate(docs):
            for d2 in D.shrink_json(d):
                if isinstance(d2, (list, dict)):
                    yield {**payload, "docs": docs[:i] + [d2] + docs[i + 1 :], "stream": fresh}
        for q2 in Q.shrink_query(payload["query"]):
            yield {**payload, "query": q2, "stream": fresh}
        return
    if payload.get("kind") != "validity":
        return
    q, doc, s = payload["query"], payload["doc"], payload["stream"]
    for d2 in D.shrink_json(doc):
        if isinstance(d2, (list, dict)):
            yield {**payload, "doc": d2}
    for q2 in Q.shrink_query(q):
        yield {**payload, "query": q2}
    # schedule reduction: replace recorded decisions by the first alternative
    tr = s.get("trace") or []
    for i, ent in enumerate(tr):
        if ent[0] == "choice" and ent[2] != 0:
            t2 = [list(e) for e in tr]
            t2[i] = ["choice", ent[1], 0]
            yield {**payload, "stream": {**s, "trace": t2}}
        elif ent[0] in ("shuffle", "sample") and ent[2] != list(range(ent[1])):
            t2 = [list(e) for e in tr]
            t2[i] = [ent[0], ent[1], list(range(ent[1]))]
            yield {**payload, "stream": {**s, "trace": t2}}


"""Structural validity of a nondeterministic evaluation, without enumerating the
permitted set: usable for documents of any size.

Input: the sequences of nodes that flowed *between* the segments of one
evaluation (taps[0] = [root], taps[i+1] = output of segment i), obtained by
driving the compiled query's segments one at a time.  Each segment's output is
checked against its input:

* child segment: per input node, in input order, one chunk; the chunk is the
  concatenation, in selector order, of each selector's result -- any permutation
  of the deterministic result for wildcard/filter on an object, exactly the
  deterministic result otherwise;
* descendant segment: per input node one chunk made of one block per visited
  container (a block = the child segment applied to that container, as above);
  every container visited exactly once; a container's block comes after the
  blocks of its ancestors and after the blocks of earlier elements of any array
  on its path (only blocks that are non-empty are observable).

Sizes are choice-independent, so the output can be cut into chunks and blocks
deterministically.  Trusts the library's deterministic single-selector results
(as ref.orderings does) and nothing else.
"""

from __future__ import annotations

from typing import Any
from typing import Callable
from typing import Dict
from typing import List
from typing import Optional
from typing import Tuple

from gen import queries as Q

from .orderings import norm_path

Loc = Tuple[Any, ...]


def _get(doc: Any, loc: Loc) -> Any:
    for k in loc:
        doc = doc[k]
    return doc


class Structure:
    def __init__(self, qast: Dict[str, Any], doc: Any, det_find: Callable[[str], List[Loc]]):
        self.q = qast
        self.doc = doc
        self.det_find = det_find
        self._det: Dict[Tuple[int, int, Loc], List[Loc]] = {}
        self._size: Dict[Tuple[int, Loc], int] = {}

    def det(self, si: int, sj: int, loc: Loc) -> List[Loc]:
        key = (si, sj, loc)
        if key not in self._det:
            if not isinstance(_get(self.doc, loc), (list, dict)):
                self._det[key] = []
            else:
                sel = self.q["segs"][si]["sels"][sj]
                self._det[key] = [tuple(x) for x in self.det_find(norm_path(loc) + "[" + Q.render_sel(sel) + "]")]
        return self._det[key]

    def child_size(self, si: int, loc: Loc) -> int:
        key = (si, loc)
        if key not in self._size:
            self._size[key] = sum(len(self.det(si, j, loc)) for j in range(len(self.q["segs"][si]["sels"])))
        return self._size[key]

    def containers_below(self, loc: Loc) -> List[Loc]:
        out = []
        stack = [loc]
        while stack:
            l = stack.pop()
            v = _get(self.doc, l)
            if isinstance(v, (list, dict)):
                out.append(l)
                items = v.items() if isinstance(v, dict) else enumerate(v)
                for k, c in items:
                    if isinstance(c, (list, dict)):
                        stack.append(l + (k,))
        return out

    # -- one child-segment application on one node ----------------------------
    def check_block(self, si: int, loc: Loc, block: List[Loc]) -> Optional[str]:
        val = _get(self.doc, loc)
        p = 0
        for sj, sel in enumerate(self.q["segs"][si]["sels"]):
            want = self.det(si, sj, loc)
            got = block[p : p + len(want)]
            p += len(want)
            if isinstance(val, dict) and sel["t"] in ("wild", "filter"):
                if sorted(map(repr, got)) != sorted(map(repr, want)):
                    return f"selector {sj} of segment {si} on {norm_path(loc)}: {got} is not a permutation of {want}"
            elif got != want:
                return f"selector {sj} of segment {si} on {norm_path(loc)}: {got} instead of {want}"
        return None

    def check_desc_chunk(self, si: int, root: Loc, chunk: List[Loc]) -> Optional[str]:
        pos: Dict[Loc, int] = {}
        p = 0
        while p < len(chunk):
            first = chunk[p]
            v = tuple(first[:-1])
            if v[: len(root)] != root or v in pos:
                return f"segment {si} under {norm_path(root)}: result {norm_path(first)} starts a block for {norm_path(v)}, which is outside the subtree or was already visited"
            size = self.child_size(si, v)
            if size == 0:
                return f"segment {si}: node {norm_path(first)} is not selected from {norm_path(v)} in deterministic mode"
            err = self.check_block(si, v, chunk[p : p + size])
            if err:
                return err
            pos[v] = len(pos)
            p += size
        for v, pv in pos.items():
            # ancestors first
            for cut in range(len(root), len(v)):
                a = v[:cut]
                if a in pos and pos[a] > pv:
                    return f"segment {si}: {norm_path(v)} visited before its ancestor {norm_path(a)}"
            # earlier elements of any array on the path first
            for cut in range(len(root) + 1, len(v) + 1):
                w = v[:cut]
                parent = w[:-1]
                if isinstance(_get(self.doc, parent), list):
                    for j in range(w[-1]):
                        sib = parent + (j,)
                        if sib in pos and pos[sib] > pv:
                            return f"segment {si}: {norm_path(v)} visited before {norm_path(sib)}, an earlier element of the array {norm_path(parent)}"
        return None

    def check(self, taps: List[List[Loc]]) -> Optional[str]:
        try:
            return self._check(taps)
        except (KeyError, IndexError, TypeError) as exc:
            return f"a result node's location does not exist in the document ({type(exc).__name__}: {exc})"

    def _check(self, taps: List[List[Loc]]) -> Optional[str]:
        if len(taps) != len(self.q["segs"]) + 1:
            return "tap count does not match the number of segments"
        for si, seg in enumerate(self.q["segs"]):
            inp, out = taps[si], taps[si + 1]
            p = 0
            for n in inp:
                if seg["k"] == "desc":
                    size = sum(self.child_size(si, c) for c in self.containers_below(n))
                else:
                    size = self.child_size(si, n)
                chunk = out[p : p + size]
                if len(chunk) != size:
                    return f"segment {si}: output too short ({len(out)} nodes) for input {norm_path(n)}"
                p += size
                err = self.check_desc_chunk(si, n, chunk) if seg["k"] == "desc" else self.check_block(si, n, chunk)
                if err:
                    return err
            if p != len(out):
                return f"segment {si}: {len(out) - p} surplus nodes in the output"
        return None

"""Reference model for C17: the set of result orderings RFC 9535 permits.

Trusts: (i) the library's *deterministic* result of a single selector applied
to a single node -- ``find("<normalized path>[<selector>]", doc)`` -- for the
*set and deterministic order* of the children a selector selects (the statement
itself anchors the node multiset to "the deterministic result"); (ii) nothing
else.  The ordering freedom is implemented here, independently of the library:

* child segment on one node: selector results concatenated in selector order;
  wildcard / filter on an object: any permutation of the selected members; on an
  array: index order (the deterministic order); name / index / slice: as is;
* child segment on a nodelist: per-node results concatenated in input order;
* descendant segment on one node: containers visited in any linear extension of
  {parent before child, array siblings in index order}; per visited node the
  child-segment result, contiguous; concatenated in visit order.

Nodes are identified by their location tuples.
"""

from __future__ import annotations

import itertools
from typing import Any
from typing import Callable
from typing import Dict
from typing import FrozenSet
from typing import List
from typing import Set
from typing import Tuple

from gen import queries as Q

Loc = Tuple[Any, ...]
Seq = Tuple[Loc, ...]


class TooBig(Exception):
    pass


def norm_path(loc: Loc) -> str:
    return "$" + "".join("[" + (Q.quote(k) if isinstance(k, str) else str(k)) + "]" for k in loc)


def _get(doc: Any, loc: Loc) -> Any:
    for k in loc:
        doc = doc[k]
    return doc


class Permitted:
    def __init__(self, qast: Dict[str, Any], doc: Any, det_find: Callable[[str], List[Loc]], cap: int = 20000):
        self.q = qast
        self.doc = doc
        self.det_find = det_find
        self.cap = cap
        self._sel_memo: Dict[Tuple[int, int, Loc], FrozenSet[Seq]] = {}
        self._seg_memo: Dict[Tuple[int, Loc], FrozenSet[Seq]] = {}
        self.work = 0

    # one selector on one node
    def sel_results(self, si: int, sj: int, loc: Loc) -> FrozenSet[Seq]:
        key = (si, sj, loc)
        if key in self._sel_memo:
            return self._sel_memo[key]
        sel = self.q["segs"][si]["sels"][sj]
        val = _get(self.doc, loc)
        if not isinstance(val, (list, dict)):
            out: FrozenSet[Seq] = frozenset([()])
        else:
            base = tuple(self.det_find(norm_path(loc) + "[" + Q.render_sel(sel) + "]"))
            if isinstance(val, dict) and sel["t"] in ("wild", "filter") and len(base) > 1:
                if len(base) > 7:
                    raise TooBig
                out = frozenset(itertools.permutations(base))
            else:
                out = frozenset([base])
        self._sel_memo[key] = out
        return out

    def _concat_product(self, parts: List[FrozenSet[Seq]]) -> FrozenSet[Seq]:
        acc: Set[Seq] = {()}
        for p in parts:
            if len(p) == 1:
                (only,) = p
                if only:
                    acc = {a + only for a in acc}
                continue
            if len(acc) * len(p) > self.cap:
                raise TooBig
            acc = {a + b for a in acc for b in p}
            self.work += len(acc)
        return frozenset(acc)

    # the child segment [sels] of segment si on one node
    def child_results(self, si: int, loc: Loc) -> FrozenSet[Seq]:
        key = (si, loc)
        if key in self._seg_memo:
            return self._seg_memo[key]
        nsel = len(self.q["segs"][si]["sels"])
        out = self._concat_product([self.sel_results(si, j, loc) for j in range(nsel)])
        self._seg_memo[key] = out
        return out

    # container tree below loc: chains of children whose relative order is forced
    def _child_chains(self, loc: Loc) -> List[List[Loc]]:
        val = _get(self.doc, loc)
        if isinstance(val, dict):
            return [[loc + (k,)] for k, v in val.items() if isinstance(v, (list, dict))]
        if isinstance(val, list):
            ch = [loc + (i,) for i, v in enumerate(val) if isinstance(v, (list, dict))]
            return [ch] if ch else []
        return []

    def visit_orders(self, loc: Loc) -> List[Tuple[Loc, ...]]:
        """All linear extensions of the container poset below (and including) loc."""
        out: List[Tuple[Loc, ...]] = []
        cap = self.cap

        def rec(prefix: Tuple[Loc, ...], frontier: Tuple[Tuple[Loc, ...], ...]) -> None:
            if not frontier:
                out.append(prefix)
                if len(out) > cap:
                    raise TooBig
                return
            for i, chain in enumerate(frontier):
                head, rest = chain[0], chain[1:]
                nf = list(frontier[:i]) + ([rest] if rest else []) + list(frontier[i + 1 :])
                nf.extend(tuple(c) for c in self._child_chains(head))
                rec(prefix + (head,), tuple(nf))

        if isinstance(_get(self.doc, loc), (list, dict)):
            rec((loc,), tuple(tuple(c) for c in self._child_chains(loc)))
        else:
            out.append((loc,))
        return out

    def desc_results(self, si: int, loc: Loc) -> FrozenSet[Seq]:
        key = (-1 - si, loc)
        if key in self._seg_memo:
            return self._seg_memo[key]
        acc: Set[Seq] = set()
        for order in self.visit_orders(loc):
            acc |= self._concat_product([self.child_results(si, v) for v in order])
            if len(acc) > self.cap:
                raise TooBig
        out = frozenset(acc)
        self._seg_memo[key] = out
        return out

    def node_results(self, si: int, loc: Loc) -> FrozenSet[Seq]:
        if self.q["segs"][si]["k"] == "desc":
            return self.desc_results(si, loc)
        return self.child_results(si, loc)

    def all(self) -> FrozenSet[Seq]:
        cur: FrozenSet[Seq] = frozenset([((),)])
        for si in range(len(self.q["segs"])):
            nxt: Set[Seq] = set()
            for seq in cur:
                nxt |= self._concat_product([self.node_results(si, loc) for loc in seq])
                if len(nxt) > self.cap:
                    raise TooBig
            cur = frozenset(nxt)
        return cur

"""Reference model for C18.

nesting(v): number of nested containers on the deepest path starting at v
(scalar 0, empty container 1); a value reachable from itself has infinite
nesting.  Expected outcome of applying a descendant segment with limit L to the
input nodes N: JSONPathRecursionError iff some n in N has nesting(n) > L, else
the full result, which this module computes itself (own pre-order walk + own
selector application for the few selector kinds the C18 workload uses).
"""

from __future__ import annotations

import math
from typing import Any
from typing import Dict
from typing import List
from typing import Tuple

INF = math.inf


def nesting(v: Any) -> float:
    """Iterative DFS with an on-path set (cycle => inf).  Memoised on finished nodes."""
    if not isinstance(v, (list, dict)):
        return 0
    done: Dict[int, float] = {}
    on_path = set()
    # stack entries: (obj, iterator over container children, best so far)
    stack: List[list] = []

    def kids(x: Any):
        vals = x.values() if isinstance(x, dict) else x
        return iter([c for c in vals if isinstance(c, (list, dict))])

    stack.append([v, kids(v), 0])
    on_path.add(id(v))
    while stack:
        top = stack[-1]
        obj, it, _best = top
        try:
            c = next(it)
        except StopIteration:
            stack.pop()
            on_path.discard(id(obj))
            val = 1 + top[2]
            done[id(obj)] = val
            if stack:
                stack[-1][2] = max(stack[-1][2], val)
            continue
        if id(c) in on_path:
            return INF
        if id(c) in done:
            top[2] = max(top[2], done[id(c)])
            continue
        on_path.add(id(c))
        stack.append([c, kids(c), 0])
    return done[id(v)]


def children(v: Any) -> List[Tuple[Any, Any]]:
    if isinstance(v, dict):
        return list(v.items())
    if isinstance(v, list):
        return list(enumerate(v))
    return []


def apply_sel(sel: Dict[str, Any], loc: Tuple, v: Any) -> List[Tuple[Tuple, Any]]:
    """Own implementation of name / index / wild / filter-?@ on one node."""
    t = sel["t"]
    if t == "name":
        if isinstance(v, dict) and sel["v"] in v:
            return [(loc + (sel["v"],), v[sel["v"]])]
        return []
    if t == "index":
        if isinstance(v, list):
            i = sel["v"]
            n = len(v)
            if -n <= i < n:
                j = i if i >= 0 else n + i
                return [(loc + (j,), v[j])]
        return []
    if t == "wild" or (t == "filter" and sel["e"] == {"t": "rel", "q": {"segs": []}}):
        return [(loc + (k,), c) for k, c in children(v)]
    raise ValueError(f"selector kind {t} not supported by the C18 reference")


class Raise(Exception):
    """The reference's own 'recursion limit exceeded'."""


def _embedded(sel: Dict[str, Any]):
    """(inner descendant segment, threshold) for [?@..x] (threshold None: existence) and
    [?count(@..x) > K]; None for anything else."""
    e = sel.get("e") if sel.get("t") == "filter" else None
    if not e:
        return None
    if e.get("t") in ("rel", "root") and len(e["q"]["segs"]) == 1 and e["q"]["segs"][0]["k"] == "desc":
        return e["q"]["segs"][0], None
    if e.get("t") == "cmp" and e["op"] == ">" and e["l"].get("t") == "call" and e["l"]["name"] == "count" and e["r"].get("t") == "lit":
        a = e["l"]["args"][0]
        if a.get("t") in ("rel", "root") and len(a["q"]["segs"]) == 1 and a["q"]["segs"][0]["k"] == "desc":
            return a["q"]["segs"][0], e["r"]["v"]
    return None


def _embedded_is_root(sel: Dict[str, Any]) -> bool:
    """[?$..x] / [?count($..x) > K]: the embedded segment starts at the query argument's root
    (for every child alike), not at the child."""
    e = sel["e"]
    if e.get("t") == "cmp":
        e = e["l"]["args"][0]
    return e.get("t") == "root"


def is_embedded_desc(sel: Dict[str, Any]) -> bool:
    return _embedded(sel) is not None


def apply_child_seg(seg: Dict[str, Any], nodes: List[Tuple[Tuple, Any]], limit: float = INF, stats: Any = None, root: Any = None) -> List[Tuple[Tuple, Any]]:
    out = []
    for loc, v in nodes:
        for sel in seg["sels"]:
            if is_embedded_desc(sel):
                # [?@..x]: the embedded descendant segment is applied to every child
                # (in order); a child nested deeper than the limit raises.  [?$..x]: it is
                # applied to the root, once per child (never, if there is no child)
                inner, threshold = _embedded(sel)
                at_root = _embedded_is_root(sel)
                memo = None
                for k, c in children(v):
                    target = root if at_root else c
                    if at_root and memo is not None:
                        status, res, work = memo  # the same walk for every child
                    else:
                        if stats is not None:
                            stats["max_nesting"] = max(stats["max_nesting"], nesting(target))
                        status, res, work = memo = descend(inner, [((), target)], limit, 2_000_000)
                    if stats is not None:
                        stats["work"] += work
                    if status == "raise":
                        raise Raise
                    if status == "work-cap":
                        raise ValueError("work cap")
                    if (len(res) > threshold) if threshold is not None else bool(res):
                        out.append((loc + (k,), c))
            else:
                out.extend(apply_sel(sel, loc, v))
    return out


def descend(seg: Dict[str, Any], nodes: List[Tuple[Tuple, Any]], limit: float, work_cap: int):
    """Pre-order walk of every input node with the depth bound.

    Returns (status, result, work): status "ok" | "raise" | "work-cap".
    Depth of the input node is 1; a *container* at depth > limit => raise.
    """
    out: List[Tuple[Tuple, Any]] = []
    work = 0
    for loc0, v0 in nodes:
        stack = [(loc0, v0, 1)]
        while stack:
            loc, v, depth = stack.pop()
            if depth > limit:
                return "raise", out, work
            work += 1 + len(v) if isinstance(v, (list, dict)) else 1
            if work > work_cap:
                return "work-cap", out, work
            for sel in seg["sels"]:
                out.extend(apply_sel(sel, loc, v))
            kids = [(loc + (k,), c, depth + 1) for k, c in children(v) if isinstance(c, (list, dict))]
            stack.extend(reversed(kids))
    return "ok", out, work


def expected(qast: Dict[str, Any], doc: Any, limit: int, work_cap: int = 2_000_000) -> Dict[str, Any]:
    """Expected outcome of the whole query (child segs + exactly one descendant seg)."""
    nodes: List[Tuple[Tuple, Any]] = [((), doc)]
    status = "ok"
    work = 0
    max_nest: float = 0
    stats = {"max_nesting": 0, "work": 0}
    for seg in qast["segs"]:
        if seg["k"] == "child":
            try:
                nodes = apply_child_seg(seg, nodes, limit, stats, doc)
            except Raise:
                return {"status": "raise", "work": work + stats["work"], "max_nesting": max(max_nest, stats["max_nesting"])}
            except ValueError:
                return {"status": "unknown", "work": work, "max_nesting": max_nest}
            max_nest = max(max_nest, stats["max_nesting"])
            work += stats["work"] + len(nodes)  # every input and output node costs something
            stats["work"] = 0
        else:
            max_nest = max([nesting(v) for _l, v in nodes] or [0])
            # a scalar input node is "visited" at depth 1 too
            status, nodes, w = descend(seg, nodes, limit, work_cap)
            work += w
            want_raise = max_nest > limit
            if status == "work-cap":
                return {"status": "unknown", "work": work, "max_nesting": max_nest}
            assert (status == "raise") == want_raise, (status, max_nest, limit)
            if status == "raise":
                return {"status": "raise", "work": work, "max_nesting": max_nest}
    return {"status": "ok", "locs": [list(l) for l, _v in nodes], "work": work + len(nodes), "max_nesting": max_nest}
